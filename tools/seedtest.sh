#!/bin/bash
# tools/seedtest.sh <prop> <tag>  : confirm a seeded change from /tmp/seed and run the property's check on it
prop=$1; tag=$2; src=/tmp/seed
d=/tmp/scr/seed_${prop}_${tag}
/verif/tools/scratch.sh $d >/dev/null
cd $d
/venv/bin/python $src/${prop}_${tag}_demo.py $d >/tmp/scr/demo_clean.out 2>&1; rc_clean=$?
git apply $src/${prop}_${tag}.patch.diff || { echo "PATCH DOES NOT APPLY"; exit 9; }
/venv/bin/python $src/${prop}_${tag}_demo.py $d >/tmp/scr/demo_patched.out 2>&1; rc_patched=$?
echo "demo: clean=$rc_clean patched=$rc_patched"
cd /verif
REPO=$d VERIF_EVIDENCE_DIR=/tmp/scr/evidence VERIF_JOBS=${VERIF_JOBS:-14} ./check $prop quick > /tmp/scr/check_${prop}_${tag}.out 2>&1; rc=$?
echo "check exit=$rc"; grep -c "^VIOLATION" /tmp/scr/check_${prop}_${tag}.out; grep "^VIOLATION\|^CHECKER-ERROR\|^UNDECIDED" /tmp/scr/check_${prop}_${tag}.out | cut -c1-260 | head -6
mkdir -p /verif/seeded/${prop}_${tag}
cp $src/${prop}_${tag}.patch.diff /verif/seeded/${prop}_${tag}/patch.diff
cp $src/${prop}_${tag}_demo.py /verif/seeded/${prop}_${tag}/demo.py
python3 - <<PY
import json
m=json.load(open("$src/${prop}_${tag}_meta.json"))
m["confirmed"]={"demo_exit_clean":$rc_clean,"demo_exit_patched":$rc_patched,"patch_applies_to_repo_head":True,
 "check_cmd":"REPO=<scratch worktree with patch> ./check $prop quick","check_exit":$rc,
 "check_violation_lines":[l.strip()[:300] for l in open("/tmp/scr/check_${prop}_${tag}.out") if l.startswith("VIOLATION")][:8]}
json.dump(m,open("/verif/seeded/${prop}_${tag}/meta.json","w"),indent=1)
PY
/verif/tools/scratch.sh -d $d
