"""python3-vt tools/one.py <prop> <contract index> : run one contract in-process and list its obligations (debug aid)."""
import sys, os, json, threading
sys.path.insert(0, os.path.dirname(os.path.dirname(os.path.abspath(__file__))))
from pyvc import driver
prop, k = sys.argv[1], int(sys.argv[2])
r = driver.run_contract((prop, k, driver.repo_path(), os.environ.get("VERIF_TIER", "quick")))
print("error:", r.get("error"), "unsupported:", r.get("unsupported"))
for o in r["obligations"]:
    print(o["status"], o.get("seconds"), o["name"].split("]/")[-1], "|", (o.get("detail") or "")[:200].replace("\n", " "))
