#!/bin/bash
# tools/harmtest.sh <prop> <tag> : apply a behaviour-preserving refactoring from /tmp/harm to a scratch worktree of
# /repo HEAD and run the property's quick check on it (expected: exit 0, no VIOLATION line); keeps it under /verif/harmless.
prop=$1; tag=$2; src=${HARM_SRC:-/tmp/harm}
d=/tmp/scr/harm_${prop}_${tag}
/verif/tools/scratch.sh $d >/dev/null
git -C $d apply $src/${prop}_${tag}.patch.diff || { echo "$prop_$tag PATCH DOES NOT APPLY"; /verif/tools/scratch.sh -d $d; exit 9; }
cd /verif
REPO=$d VERIF_EVIDENCE_DIR=/tmp/scr/evidence VERIF_JOBS=${VERIF_JOBS:-14} ./check $prop quick > /tmp/scr/hcheck_${prop}_${tag}.out 2>&1; rc=$?
echo "${prop}_${tag} check exit=$rc violations=$(grep -c '^VIOLATION' /tmp/scr/hcheck_${prop}_${tag}.out)"
grep "^VIOLATION\|^CHECKER-ERROR\|^UNDECIDED" /tmp/scr/hcheck_${prop}_${tag}.out | cut -c1-300 | head -8
mkdir -p /verif/harmless/${prop}_${tag}
cp $src/${prop}_${tag}.patch.diff /verif/harmless/${prop}_${tag}/patch.diff
python3 - <<PY
import json
try: m=json.load(open("$src/${prop}_${tag}_meta.json"))
except Exception as e: m={"property":"$prop","meta_unreadable":str(e)}
m["check"]={"cmd":"REPO=<scratch worktree with patch> ./check $prop quick","exit":$rc,
 "lines":[l.strip()[:300] for l in open("/tmp/scr/hcheck_${prop}_${tag}.out") if l.startswith(("VIOLATION","CHECKER-ERROR","UNDECIDED"))][:8]}
json.dump(m,open("/verif/harmless/${prop}_${tag}/meta.json","w"),indent=1)
PY
/verif/tools/scratch.sh -d $d
