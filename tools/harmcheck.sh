#!/bin/bash
# tools/harmcheck.sh [patch ...] : re-apply every kept behaviour-preserving refactoring (harmless/<id>_<tag>) to a scratch
# worktree of /repo HEAD and re-run the property's quick check on it; one line per patch (expected: exit 0 for all).
cd /verif
ps=${@:-$(ls harmless)}
for s in $ps; do
  prop=${s%%_*}
  d=/tmp/scr/hc_$s
  tools/scratch.sh $d >/dev/null
  if ! git -C $d apply --check /verif/harmless/$s/patch.diff 2>/dev/null; then echo "$s PATCH-DOES-NOT-APPLY"; tools/scratch.sh -d $d; continue; fi
  git -C $d apply /verif/harmless/$s/patch.diff
  REPO=$d VERIF_EVIDENCE_DIR=/tmp/scr/evidence VERIF_JOBS=${VERIF_JOBS:-12} ./check $prop quick > /tmp/scr/hc_$s.out 2>&1; rc=$?
  echo "$s exit=$rc violations=$(grep -c '^VIOLATION' /tmp/scr/hc_$s.out) $(grep '^VIOLATION\|^CHECKER-ERROR\|^UNDECIDED' /tmp/scr/hc_$s.out | head -n1 | cut -c1-160)"
  tools/scratch.sh -d $d
done
