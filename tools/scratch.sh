#!/bin/sh
# fresh scratch worktree of /repo HEAD at $1 (default /tmp/scr/r); remove with: tools/scratch.sh -d [dir]
if [ "$1" = "-d" ]; then d=${2:-/tmp/scr/r}; git -C /repo worktree remove --force "$d" 2>/dev/null; rm -rf "$d"; git -C /repo worktree prune; exit 0; fi
d=${1:-/tmp/scr/r}
git -C /repo worktree remove --force "$d" 2>/dev/null; rm -rf "$d"; git -C /repo worktree prune
mkdir -p "$(dirname "$d")" && git -C /repo worktree add -q --detach "$d" HEAD && echo "$d"
