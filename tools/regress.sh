#!/bin/bash
# run every claimed check (quick tier) on /repo and summarise exit codes
cd /verif
for p in $(python3 -c "import json; print(' '.join(c['property_id'] for c in json.load(open('MANIFEST.json'))['checks']))"); do
  s=$(date +%s); VERIF_JOBS=${VERIF_JOBS:-12} ./check $p ${1:-quick} > /tmp/scr/reg_$p.out 2>&1; rc=$?
  echo "$p exit=$rc $(( $(date +%s) - s ))s $(grep -c '^VIOLATION' /tmp/scr/reg_$p.out) violations; $(grep "^$p " /tmp/scr/reg_$p.out | cut -c1-160)"
done
