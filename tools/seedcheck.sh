#!/bin/bash
# tools/seedcheck.sh [seed ...] : re-apply every kept seeded change to a scratch worktree of /repo HEAD and re-run the
# property's quick check on it; prints one line per seed (expected: exit 1 for all but the documented miss C17_B).
cd /verif
seeds=${@:-$(ls seeded)}
for s in $seeds; do
  prop=${s%%_*}
  d=/tmp/scr/sc_$s
  tools/scratch.sh $d >/dev/null
  if ! git -C $d apply --check /verif/seeded/$s/patch.diff 2>/dev/null; then echo "$s PATCH-DOES-NOT-APPLY"; tools/scratch.sh -d $d; continue; fi
  git -C $d apply /verif/seeded/$s/patch.diff
  REPO=$d VERIF_EVIDENCE_DIR=/tmp/scr/evidence VERIF_JOBS=${VERIF_JOBS:-12} ./check $prop quick > /tmp/scr/sc_$s.out 2>&1; rc=$?
  echo "$s exit=$rc violations=$(grep -c '^VIOLATION' /tmp/scr/sc_$s.out) $(grep '^VIOLATION' /tmp/scr/sc_$s.out | head -n1 | sed 's/.*replays\///' | cut -c1-120)"
  tools/scratch.sh -d $d
done
