#!/bin/sh
# Nothing to build: the framework is pure Python run by the pre-installed tooling venv.
set -e
command -v python3-vt >/dev/null
python3-vt -c "import z3; assert z3.get_version_string().startswith('5')"
test -x /usr/bin/cvc5
test -x /venv/bin/python
mkdir -p evidence replays
echo setup-ok
