"""C07 - herd feeding accounts for energy and starvation consistently.

Functions under contract (src/food_system/animal_populations.py): AnimalSpecies.feed_the_species,
reset_NE_balance, net_energy_required_per_species/_per_month, AnimalPopulation.feed_animals,
calculate_starving_animals_after_feed.
"""
from pyvc.vc import Contract
from pyvc.spec import V, And, Or, Not, Implies, If, Abs, Min, Max, Sum, unwrap

AP = "src/food_system/animal_populations.py"


def mk_animal(S, tag, with_need=True):
    """An AnimalSpecies with the fields the feeding code reads (valid_species_row: herd >= 0,
    requirement >= 0, digestion efficiencies in (0, 1])."""
    eg, ef = S.real(f"eff_grass{tag}"), S.real(f"eff_feed{tag}")
    herd = S.real(f"herd{tag}")
    S.assume(And(eg > 0, eg <= 1, ef > 0, ef <= 1, herd >= 0))
    attrs = dict(digestion_efficiency={"grass": unwrap(eg), "feed": unwrap(ef)}, current_population=herd,
                 population_fed=S.real(f"fed_before{tag}"))
    need = None
    if with_need:
        need = S.real(f"need{tag}")
        S.assume(need >= 0)
        attrs["NE_balance"] = S.food(need, 0, 0)
    else:
        lsu, fac = S.real(f"lsu{tag}"), S.real(f"lsu_factor{tag}")
        S.assume(And(lsu > 0, fac > 0))
        attrs["livestock_unit"], attrs["LSU_factor"] = lsu, fac
    a = S.obj(AP, "AnimalSpecies", **attrs)
    return a, dict(eg=eg, ef=ef, herd=herd, need=need)


def feeding_clauses(p, grass0, feed0, grass1, feed1, balance1, fed1, ruminant):
    """The statement of C07 for one species: p = its parameters, *0 supplies before, *1 after."""
    g_used, f_used = grass0 - grass1, feed0 - feed1
    delivered = g_used * p["eg"] + f_used * p["ef"]
    need, herd = p["need"], p["herd"]
    return {
        "uses_no_more_grass_than_supplied": And(g_used >= 0, g_used <= grass0),
        "uses_no_more_feed_than_supplied": And(f_used >= 0, f_used <= feed0),
        "grass_only_for_ruminants": Implies(Not(ruminant), g_used == 0),
        "no_more_energy_than_required": delivered <= need,
        "balance_is_what_is_still_owed": balance1 == need - delivered,
        "fed_never_exceeds_herd": fed1 <= herd,
        "fed_is_whole_herd_when_requirement_met": Implies(delivered == need, fed1 == herd),
        "fed_is_herd_scaled_by_energy_fraction": Implies(
            delivered < need, Abs(fed1 - herd * delivered / need) <= V(1) / 2),
        "starving_remainder_not_negative": herd - fed1 >= 0,
        "supplies_short_only_when_exhausted": Implies(
            delivered < need, And(feed1 == 0, Implies(ruminant, grass1 == 0))),
    }


class FeedTheSpecies(Contract):
    prop = "C07"
    file = AP
    func = "AnimalSpecies.feed_the_species"
    name = "one_species"

    def inputs(self, S):
        animal, p = mk_animal(S, "")
        g0, f0 = S.real("grass"), S.real("feed")
        S.assume(And(g0 >= 0, f0 >= 0))
        grass, feed = S.food(g0, 0, 0), S.food(f0, 0, 0)
        rum = S.bool("is_ruminant")
        return dict(args=[animal, grass, feed, rum], p=p, g0=g0, f0=f0, rum=rum, animal=animal, grass=grass, feed=feed)

    def ensures(self, S, a, res):
        out = feeding_clauses(a["p"], a["g0"], a["f0"], a["grass"].kcals, a["feed"].kcals,
                              a["animal"].NE_balance.kcals, a["animal"].population_fed, a["rum"])
        out["returns_the_two_supplies"] = V(unwrap(res)[0] is unwrap(a["grass"]) and unwrap(res)[1] is unwrap(a["feed"]))
        return out


class FeedAnimals(Contract):
    """feed_animals serves the list strictly in order: species j sees exactly what species 0..j-1 left.
    Proved for a list of literal length 3 (ruminant / non-ruminant mix symbolic); the fold step is the
    FeedTheSpecies contract, so longer lists follow by induction on the list (stated, not mechanised)."""
    prop = "C07"
    file = AP
    func = "AnimalPopulation.feed_animals"
    name = "three_species_in_order"
    max_paths = 3000

    def inputs(self, S):
        animals, ps = [], []
        for k in range(3):
            an, p = mk_animal(S, f"_{k}", with_need=False)
            animals.append(an)
            ps.append(p)
        g0, f0 = S.real("grass"), S.real("feed")
        S.assume(And(g0 >= 0, f0 >= 0))
        grass, feed = S.food(g0, 0, 0), S.food(f0, 0, 0)
        # which of the three are ruminants: concrete sub-list chosen by three booleans is not expressible as a
        # symbolic list, so the contract is instantiated for the mix (0 and 2 ruminant, 1 not)
        ruminants = [unwrap(animals[0]), unwrap(animals[2])]
        return dict(args=[[unwrap(x) for x in animals], ruminants, feed, grass], animals=animals, ps=ps, g0=g0, f0=f0,
                    grass=grass, feed=feed)

    def ensures(self, S, a, res):
        out = {}
        one_lsu = V(29000) / 12 / V("4.187") if False else None
        # requirement of each species as reset_NE_balance computes it
        from fractions import Fraction
        k1 = (Fraction(29000) / 12) / Fraction("4.187") * 1000 / Fraction(10) ** 9
        needs = [p_["herd"] * (a["animals"][k].livestock_unit * k1 * a["animals"][k].LSU_factor) for k, p_ in enumerate(a["ps"])]
        # replay the documented order as a specification: grass first (ruminants only), then feed
        g, f = a["g0"], a["f0"]
        rum = [True, False, True]
        for k in range(3):
            p = a["ps"][k]
            need = needs[k]
            from_grass = If(rum[k], Min(g * p["eg"], need), 0) if rum[k] else V(0)
            g_after = g - from_grass / p["eg"]
            rest = need - from_grass
            from_feed = Min(f * p["ef"], rest)
            f_after = f - from_feed / p["ef"]
            bal = a["animals"][k].NE_balance.kcals
            out[f"species{k}_served_after_those_before_it"] = Implies(need > 0, bal == need - from_grass - from_feed)
            # the head count reported as fed is THIS feeding's (whatever an earlier month left in population_fed)
            fed = a["animals"][k].population_fed
            delivered = from_grass + from_feed
            out[f"species{k}_fed_count_is_this_months"] = Implies(need > 0, And(
                fed >= 0, fed <= p["herd"], Implies(delivered == need, fed == p["herd"]),
                Implies(delivered < need, Abs(fed - p["herd"] * delivered / need) <= V(1) / 2)))
            # a species that owes nothing (an emptied herd) has its count refreshed too: to its whole herd
            out[f"species{k}_owing_nothing_counts_its_whole_herd"] = Implies(need == 0, fed == p["herd"])
            g, f = If(need > 0, g_after, g), If(need > 0, f_after, f)
        out["leftover_feed_returned"] = And(res[0].kcals == f, res[1].kcals == g)
        out["leftovers_within_supplies"] = And(res[0].kcals >= 0, res[0].kcals <= a["f0"], res[1].kcals >= 0, res[1].kcals <= a["g0"])
        return out


class Starving(Contract):
    prop = "C07"
    file = AP
    func = "AnimalPopulation.calculate_starving_animals_after_feed"
    name = "remainder"

    def inputs(self, S):
        herd, fed = S.real("herd"), S.real("fed")
        S.assume(And(herd >= 0, fed >= 0, fed <= herd))
        an = S.obj(AP, "AnimalSpecies", current_population=herd, population_fed=fed,
                   population_starving_pre_slaughter=[])
        return dict(args=[[unwrap(an)]], an=an, herd=herd, fed=fed)

    def ensures(self, S, a, res):
        lst = unwrap(a["an"]).attrs["population_starving_pre_slaughter"]
        return {
            "one_entry_appended": V(len(lst) == 1),
            "starving_is_the_remainder": V(lst[0]) == a["herd"] - a["fed"] if len(lst) == 1 else V(False),
            "starving_not_negative": V(lst[0]) >= 0 if len(lst) == 1 else V(False),
        }


CONTRACTS = [FeedTheSpecies(), FeedAnimals(), Starving()]
TRUSTED = [
    "machine floats treated as mathematical reals; round() modelled as exact round-half-even",
    "feed_animals is verified for a literal list of three species (fold step = feed_the_species contract); "
    "longer lists by induction on the list, not mechanised",
    "valid_species_row: digestion efficiencies in (0,1], herd >= 0, livestock unit and LSU factor > 0 (precondition)",
]
NOT_DECIDED = ["priority order of the list itself (get_optimal_next_animal_to_feed sorting) is covered with C06's herd-loop contracts"]
ASSUMPTIONS = list(TRUSTED)
MIN_OBLIGATIONS = 10
