"""C06 - herd head-count ledger balances every month.

The month loop of animal_populations.main() is the code under contract: its BODY is extracted from main()'s AST on
every run (the statements of `for month in range(0, months_to_run)`), wrapped as a function of the names it uses, and
executed symbolically for an arbitrary month index on three herds - a dairy herd and the meat herd of the same
species plus a third herd - whose histories are arbitrary values satisfying the month invariant (non-negative last
head count / pregnant counts / slaughter, current_population == population[-1]).  Every callee in
animal_populations.py runs from source (calculate_additive_births, calculate_change_in_population and its helpers,
the home-kill chain, calculate_final_population, set/append current populations, calculate_net_slaughter_hours_by_size,
retiring_milk_head_monthly); only AnimalPopulation.feed_animals is replaced by its contract (C07: 0 <= fed <= herd).
The extraction drops: the pandas set-up above the loop, the loop header (the month is a symbolic integer >= 0), and
the optional remove_first_month tail.
"""
import ast
import csv
import os
import time
from fractions import Fraction
import z3
from pyvc.vc import Contract
from pyvc.spec import V, And, Or, Not, Implies, If, Abs, Min, Max, Sum, unwrap
from pyvc.values import Arr, Sym, Obj, FuncVal

AP = "src/food_system/animal_populations.py"
BODY_ARGS = ["all_animals", "ruminants", "country_object", "available_feed", "available_grass", "feed_used", "grass_used", "month"]

HIST = ["population", "population_starving_pre_slaughter", "other_death_causes_other_than_starving", "other_death_starving",
        "other_death_total", "slaughter", "pregnant_animals_total", "pregnant_animals_birthing_this_month",
        "slaughtered_pregnant_animals", "homekill_other_death_this_month", "homekill_healthy_this_month",
        "homekill_starving_this_month", "total_homekill_this_month"]
GROWING = HIST + ["births_animals_month", "transfer_population"]


def month_body(I):
    """main()'s month-loop body as a function (mechanical extraction, re-done from the source on every run)."""
    mod = I.import_module("src.food_system.animal_populations")
    fn = mod.ns["main"]
    loops = [st for st in fn.node.body if isinstance(st, ast.For) and ast.unparse(st.target) == "month"]
    if len(loops) != 1:
        raise RuntimeError("main(): month loop not found")
    node = ast.FunctionDef(name="main__month_body",
                           args=ast.arguments(posonlyargs=[], args=[ast.arg(arg=n) for n in BODY_ARGS], kwonlyargs=[], kw_defaults=[], defaults=[]),
                           body=list(loops[0].body) + [ast.Return(value=None)], decorator_list=[], returns=None, type_comment=None)
    node.lineno, node.col_offset = loops[0].lineno, 0
    ast.fix_missing_locations(node)
    return FuncVal(node, fn.env, fn.module, "main__month_body")


def herd(S, tag, function, species, size, month_zero):
    """An AnimalSpecies object mid-simulation: parameters as validated by set_species_*_attributes (valid species
    row), histories as the month invariant allows."""
    r = lambda n: S.real(f"{tag}_{n}")
    P = r("population")
    a = dict(animal_type=("milk_" if function == "milk" else "meat_") + species, animal_species=species, animal_function=function,
             animal_size=size, transfer_culling_fraction=Fraction(9, 10), birth_ratio=2 if function == "milk" else 1)
    nonneg = ["gestation", "other_animal_death_rate_monthly", "animals_per_pregnancy", "animal_slaughter_hours", "baseline_slaughter",
              "target_population_head", "target_population_fraction"]
    unit = ["reduction_in_animal_breeding", "pregnant_animal_slaughter_fraction", "starvation_death_fraction"]
    for n in nonneg + unit:
        a[n] = x = r(n)
        S.assume(x >= 0)
        if n in unit:
            S.assume(x <= 1)
    S.assume(And(a["gestation"] > 0, a["animals_per_pregnancy"] > 0, a["animal_slaughter_hours"] > 0, a["other_animal_death_rate_monthly"] <= 1))
    if function == "milk":
        a["retiring_milk_animals_fraction"] = x = r("retiring_milk_animals_fraction")
        S.assume(And(x >= 0, x <= 1))
        a["retiring_milk_animals"] = [] if month_zero else [unwrap(r("retired_last_month"))]
        a["transfer_births"] = [] if month_zero else [unwrap(r("transfer_births_last_month"))]
    S.assume(P >= 0)
    a["current_population"] = P
    a["population_fed"] = r("population_fed_before")
    last = {}
    for h in HIST:
        last[h] = P if h == "population" else r("last_" + h)
        a[h] = [unwrap(last[h])]
    # births / transfer lists are empty in month zero (append_month_zero does not fill them)
    a["births_animals_month"] = [] if month_zero else [unwrap(r("last_births"))]
    a["transfer_population"] = [] if month_zero else [unwrap(r("last_transfer"))]
    S.assume(And(last["pregnant_animals_total"] >= 0, last["pregnant_animals_birthing_this_month"] >= 0, last["slaughter"] >= 0))
    o = S.obj(AP, "AnimalSpecies", **{k: (unwrap(v) if isinstance(v, V) else v) for k, v in a.items()})
    return dict(obj=o, P=P, tag=tag, function=function, species=species, size=size, par={k: v for k, v in a.items() if isinstance(v, V)},
                last=last)


def _feed_summary(interp, ctx, fv, args, kwargs):
    """Contract of AnimalPopulation.feed_animals as far as the head-count ledger needs it (C07 proves it for
    feed_the_species): every herd ends the feeding with 0 <= population_fed <= current_population; what is left of feed
    and grass is between zero and what was offered."""
    from pyvc.spec import Spec
    S = Spec(ctx, interp)
    animals, ruminants, feed, grass = args
    for an in interp.iterate(animals):
        ctx.counter += 1
        fed = S.real(f"population_fed!{ctx.counter}")
        S.assume(And(fed >= 0, fed <= V(an.attrs["current_population"])))
        an.attrs["population_fed"] = unwrap(fed)
    out = []
    for nm, f in (("feed_left", feed), ("grass_left", grass)):
        ctx.counter += 1
        left = S.real(f"{nm}!{ctx.counter}")
        S.assume(And(left >= 0, left <= V(f.attrs["kcals"])))
        out.append(unwrap(S.food(left, V(f.attrs["fat"]), V(f.attrs["protein"]), f.attrs["kcals_units"], f.attrs["fat_units"], f.attrs["protein_units"])))
    return (out[0], out[1])


def change_post(cur, natural_rate, retiring, additive, remaining, hours, target, s, cur2, rem2, natural, pt, pb, sp, gestation):
    """Postcondition of AnimalPopulation.calculate_change_in_population, stated once: proved of the real function by
    the ChangeInPopulation contracts and assumed (for fresh result symbols) where the month body calls it."""
    pre = cur - natural - retiring + additive
    return {
        "natural_deaths_are_rate_x_herd": natural == cur * natural_rate,
        "slaughter_non_negative": s >= 0,
        "slaughter_hours_within_what_is_left_for_the_class": And(s * hours <= Max(remaining, 0), rem2 == remaining - s * hours, rem2 >= 0),
        "herd_after_slaughter_is_the_balance_or_zero": And(cur2 == Max(0, pre - s), Implies(pre - s < 0, s == 0)),
        "slaughter_never_takes_a_herd_below_its_target": And(Implies(pre >= target, pre - s >= target), Implies(pre < target, s == 0)),
        "slaughter_never_exceeds_the_animals_available": s <= Max(pre, 0),
        "pregnant_counts_stay_non_negative": And(pt >= 0, pb >= 0, sp >= 0, pb * gestation == pt),
    }


def _change_summary(interp, ctx, fv, args, kwargs):
    from pyvc.spec import Spec
    S = Spec(ctx, interp)
    animal, country, additive, remaining = args
    at = animal.attrs
    ctx.counter += 1
    k = ctx.counter
    s, cur2, rem2, natural, pt, pb, sp = (S.real(f"{n}!{k}") for n in ("slaughter", "herd_after_slaughter", "hours_left", "natural_deaths",
                                                                    "pregnant_total", "pregnant_birthing", "slaughtered_pregnant"))
    retiring = V(at["retiring_milk_animals"][-1]) if at["animal_function"] == "milk" else V(0)
    ctx.check(f"change_in_population_precondition[{at['animal_type']}]",
              And(V(additive) >= 0, V(remaining) >= 0, retiring >= 0, V(at["current_population"]) >= 0, V(at["slaughter"][-1]) >= 0,
                  V(at["pregnant_animals_total"][-1]) >= 0, V(at["pregnant_animals_birthing_this_month"][-1]) >= 0))
    post = change_post(V(at["current_population"]), V(at["other_animal_death_rate_monthly"]), retiring, V(additive), V(remaining),
                       V(at["animal_slaughter_hours"]), V(at["target_population_head"]), s, cur2, rem2, natural, pt, pb, sp, V(at["gestation"]))
    for f in post.values():
        S.assume(f)
    at["current_population"] = unwrap(cur2)
    at["slaughter"].append(unwrap(s))
    at["pregnant_animals_total"].append(unwrap(pt))
    at["pregnant_animals_birthing_this_month"].append(unwrap(pb))
    at["other_death_causes_other_than_starving"].append(unwrap(natural))
    at["slaughtered_pregnant_animals"].append(unwrap(sp))
    return unwrap(rem2)


class ChangeInPopulation(Contract):
    """AnimalPopulation.calculate_change_in_population (with calculate_other_deaths, calculate_slaughter_rate,
    calculate_animal_population, calculate_pregnant_slaughter, calculate_pregnant_animals_birthing executed from
    source) against change_post, for every herd state allowed by the month invariant."""
    prop = "C06"
    file = AP
    func = "AnimalPopulation.calculate_change_in_population"
    np_floats = True
    merge = True

    def __init__(self, function, month_zero):
        self.function, self.month_zero = function, month_zero
        self.name = f"{function} herd, " + ("month 0" if month_zero else "later month")

    def inputs(self, S):
        h = herd(S, "h", self.function, "cattle", "large", False)
        at = unwrap(h["obj"]).attrs
        co = S.call(AP, "CountryData", "XXX")
        unwrap(co).attrs["month"] = 0 if self.month_zero else unwrap(S.int("month"))
        if not self.month_zero:
            S.assume(V(unwrap(co).attrs["month"]) >= 1)
        additive, remaining = S.real("additive"), S.real("remaining_hours")
        S.assume(And(additive >= 0, remaining >= 0))
        pre = dict(cur=h["P"], rate=h["par"]["other_animal_death_rate_monthly"], hours=h["par"]["animal_slaughter_hours"],
                   target=h["par"]["target_population_head"], gestation=h["par"]["gestation"],
                   retiring=V(at["retiring_milk_animals"][-1]) if self.function == "milk" else V(0))
        if self.function == "milk":
            S.assume(pre["retiring"] >= 0)
        n0 = {n: len(at[n]) for n in ("slaughter", "pregnant_animals_total", "pregnant_animals_birthing_this_month",
                                      "other_death_causes_other_than_starving", "slaughtered_pregnant_animals", "population")}
        return dict(args=[h["obj"], co, additive, remaining], h=h, pre=pre, additive=additive, remaining=remaining, n0=n0)

    def ensures(self, S, a, res):
        at = unwrap(a["h"]["obj"]).attrs
        p = a["pre"]
        last = lambda n: V(at[n][-1])
        out = change_post(p["cur"], p["rate"], p["retiring"], a["additive"], a["remaining"], p["hours"], p["target"], last("slaughter"),
                          V(at["current_population"]), res, last("other_death_causes_other_than_starving"), last("pregnant_animals_total"),
                          last("pregnant_animals_birthing_this_month"), last("slaughtered_pregnant_animals"), p["gestation"])
        out["appends_one_entry_to_each_of_its_five_lists_and_none_to_population"] = V(
            all(len(at[n]) == k + (0 if n == "population" else 1) for n, k in a["n0"].items()))
        return out


def tail_loop(I):
    """The last per-herd loop of the month body (home-kill, starvation deaths, final head count): (ordinal, node)."""
    f = I.func_info(month_body(I))
    loops = [n for n in ast.walk(f.node) if isinstance(n, (ast.For, ast.While))]
    loops.sort(key=lambda n: (n.lineno, n.col_offset))
    # (the loop's own text together with the module-level helper functions it calls by name: a body moved into a helper
    # is still this loop)
    mod = I.import_module("src.food_system.animal_populations")
    helpers = {name: v.node for name, v in mod.ns.items() if isinstance(v, FuncVal) and isinstance(getattr(v, "node", None), ast.FunctionDef)}

    def text(n, depth=0):
        out = [ast.unparse(n)]
        if depth < 3:
            for c in ast.walk(n):
                if isinstance(c, ast.Call) and isinstance(c.func, ast.Name) and c.func.id in helpers and c.func.id != "main":
                    out.append(text(helpers[c.func.id], depth + 1))
        return "\n".join(out)

    hits = [(k, n) for k, n in enumerate(loops) if ast.unparse(n.target) == "animal"
            and not any(isinstance(m, ast.For) for m in ast.walk(n) if m is not n) and "calculate_final_population" in text(n)]
    if len(hits) != 1:
        raise RuntimeError("month body: home-kill / final population loop not found")
    return hits[0]


def tail_body(I):
    k, loop = tail_loop(I)
    mod = I.import_module("src.food_system.animal_populations")
    fn = mod.ns["main"]
    node = ast.FunctionDef(name="main__month_body__herd_tail",
                           args=ast.arguments(posonlyargs=[], args=[ast.arg(arg=n) for n in ("animal", "country_object")], kwonlyargs=[],
                                              kw_defaults=[], defaults=[]),
                           body=list(loop.body) + [ast.Return(value=None)], decorator_list=[], returns=None, type_comment=None)
    node.lineno, node.col_offset = loop.lineno, 0
    ast.fix_missing_locations(node)
    return FuncVal(node, fn.env, fn.module, "main__month_body__herd_tail")


TAIL_LISTS = ["homekill_other_death_this_month", "homekill_healthy_this_month", "homekill_starving_this_month", "total_homekill_this_month",
              "other_death_starving", "other_death_total"]


def tail_pre(cur, s, starving_pre, natural, pt, pb, budget, P0):
    return And(cur >= 0, s >= 0, natural >= 0, pt >= 0, pb >= 0, budget == 0, P0 >= 0)


def tail_post(cur, s, starving_pre, natural, frac, cur2, starve, total, hk_o, hk_h, hk_s, hk_t, pt2, pb2, budget2):
    return {
        "no_home_kill_without_home_kill_hours": And(hk_o == 0, hk_h == 0, hk_s == 0, hk_t == 0, budget2 == 0),
        "starvation_deaths_are_the_configured_share_of_the_unfed_animals_left_after_slaughter": starve == frac * Max(0, starving_pre - s),
        "total_other_deaths_recorded": total == starve + natural,
        "final_head_count_is_the_balance_or_zero": cur2 == Max(0, cur - starve - hk_h - hk_s),
        "pregnant_counts_stay_non_negative": And(pt2 >= 0, pb2 >= 0),
    }


def _tail_state(at, co):
    last = lambda n: V(at[n][-1])
    return dict(cur=V(at["current_population"]), s=last("slaughter"), starving_pre=last("population_starving_pre_slaughter"),
                natural=last("other_death_causes_other_than_starving"), pt=last("pregnant_animals_total"),
                pb=last("pregnant_animals_birthing_this_month"), budget=V(co.attrs["homekill_hours_budget"][-1]), P0=last("population"))


def _tail_summary(interp, ctx, env):
    """Applied once per herd in place of the loop body: its precondition is CHECKED at the call site (obligation),
    its postcondition assumed for fresh result symbols."""
    from pyvc.spec import Spec
    S = Spec(ctx, interp)
    animal, co = env.lookup("animal", interp), env.lookup("country_object", interp)
    at = animal.attrs
    st = _tail_state(at, co)
    ctx.counter += 1
    k = ctx.counter
    ctx.check(f"herd_tail_precondition[{at['animal_type']}]", tail_pre(**st))
    cur2, starve, total, pt2, pb2 = (S.real(f"{n}!{k}") for n in ("final_head", "starvation_deaths", "other_deaths_total", "pregnant_total_adj",
                                                                "pregnant_birthing_adj"))
    post = tail_post(st["cur"], st["s"], st["starving_pre"], st["natural"], V(at["starvation_death_fraction"]), cur2, starve, total,
                     V(0), V(0), V(0), V(0), pt2, pb2, V(0))
    for f in post.values():
        S.assume(f)
    for n in TAIL_LISTS[:4]:
        at[n].append(Fraction(0))
    at["other_death_starving"].append(unwrap(starve))
    at["other_death_total"].append(unwrap(total))
    at["pregnant_animals_total"][-1] = unwrap(pt2)
    at["pregnant_animals_birthing_this_month"][-1] = unwrap(pb2)
    at["current_population"] = unwrap(cur2)


class BodySummary:
    def __init__(self, fn):
        self.fn = fn

    def run(self, I, st, env, it):
        for x in I.iterate(it):
            I.assign_target(st.target, x, env)
            self.fn(I, I.ctx, env)


class HerdTail(Contract):
    """The per-herd tail of the month body (extracted from main()'s AST like the month body itself) against
    tail_post: home-kill chain, starvation deaths, pregnancy adjustment, final head count."""
    prop = "C06"
    file = AP
    func = "main"
    np_floats = True
    merge = True
    replayable = False

    def __init__(self, function):
        self.function = function
        self.name = f"month-loop body / per-herd tail, {function} herd"

    def call(self, I, S, a):
        return I.call(tail_body(I), [unwrap(x) for x in a["args"]], {})

    def inputs(self, S):
        h = herd(S, "h", self.function, "cattle", "large", False)
        at = unwrap(h["obj"]).attrs
        # state after the slaughter step: the herd has been reduced, this month's slaughter etc. are appended
        cur = S.real("herd_after_slaughter")
        at["current_population"] = unwrap(cur)
        for n in ("slaughter", "other_death_causes_other_than_starving", "pregnant_animals_total", "pregnant_animals_birthing_this_month",
                  "slaughtered_pregnant_animals", "population_starving_pre_slaughter"):
            at[n].append(unwrap(S.real("this_month_" + n)))
        co = S.call(AP, "CountryData", "XXX")
        S.I.call_method(unwrap(co), "calculate_homekill_hours", [])
        S.I.call_method(unwrap(co), "homekill_desperation_parameters", [])
        unwrap(co).attrs["homekill_hours_budget"].append(unwrap(co).attrs["homekill_hours_total_month"][-1])
        st = _tail_state(at, unwrap(co))
        S.assume(tail_pre(**st))
        n0 = {n: len(at[n]) for n in TAIL_LISTS + ["population", "pregnant_animals_total"]}
        return dict(args=[h["obj"], co], h=h, st=st, co=co, n0=n0)

    def ensures(self, S, a, res):
        at = unwrap(a["h"]["obj"]).attrs
        st = a["st"]
        last = lambda n: V(at[n][-1])
        out = tail_post(st["cur"], st["s"], st["starving_pre"], st["natural"], a["h"]["par"]["starvation_death_fraction"],
                        V(at["current_population"]), last("other_death_starving"), last("other_death_total"),
                        last("homekill_other_death_this_month"), last("homekill_healthy_this_month"), last("homekill_starving_this_month"),
                        last("total_homekill_this_month"), last("pregnant_animals_total"), last("pregnant_animals_birthing_this_month"),
                        V(unwrap(a["co"]).attrs["homekill_hours_budget"][-1]))
        out["appends_one_entry_to_each_of_its_six_lists_only"] = V(all(len(at[n]) == k + (1 if n in TAIL_LISTS else 0) for n, k in a["n0"].items()))
        return out


class MonthStep(Contract):
    prop = "C06"
    file = AP
    func = "main"
    replayable = False
    merge = True
    np_floats = True
    max_paths = 20000
    summaries = {(AP, "AnimalPopulation.feed_animals"): _feed_summary,
                 (AP, "AnimalPopulation.calculate_change_in_population"): _change_summary}

    def __init__(self, order, other_size, month_zero, species=("cattle", "horse")):
        # species: (species of the dairy + meat pair, species of the third herd).  The shipped world aggregate has a camel
        # dairy herd next to a 'camelids' herd: one species name is a prefix of the other, and they are different species.
        self.order, self.other_size, self.month_zero, self.species = order, other_size, month_zero, species
        self.name = (f"month-loop body, herds in order {'/'.join(order)}, third herd {other_size}, "
                     + ("month 0" if month_zero else "any later month")
                     + ("" if species == ("cattle", "horse") else f", species {species[0]} next to {species[1]}"))

    def call(self, I, S, a):
        return I.call(month_body(I), [unwrap(x) for x in a["args"]], {})

    def inputs(self, S):
        self.loops = {(AP, "main__month_body", tail_loop(S.I)[0]): BodySummary(_tail_summary)}
        S.set_conversions(S.real("kd"), S.real("fd"), S.real("pd"), False, False, S.real("pop"))
        hs = {"milk": herd(S, "dairy", "milk", self.species[0], "large", self.month_zero),
              "meat": herd(S, "beef", "meat", self.species[0], "large", self.month_zero),
              "other": herd(S, "other", "meat", self.species[1], self.other_size, self.month_zero)}
        animals = [unwrap(hs[k]["obj"]) for k in self.order]
        ruminants = [unwrap(hs["milk"]["obj"]), unwrap(hs["meat"]["obj"])]
        # the country object exactly as main() builds it (real constructor and setters, executed from source)
        co = S.call(AP, "CountryData", "XXX")
        S.I.call_method(unwrap(co), "calculate_homekill_hours", [])
        S.I.call_method(unwrap(co), "homekill_desperation_parameters", [])
        if not self.month_zero:
            unwrap(co).attrs["homekill_hours_budget"].append(Fraction(0))
        N = S.int("N")
        if self.month_zero:
            month = V(0)
            S.assume(N >= 1)
        else:
            month = S.int("month")
            S.assume(And(month >= 1, month < N))
        zeros = lambda: V(Arr(unwrap(N), fn=lambda i: Fraction(0), dtype="float"))
        units = dict(kcals_units="billion kcals each month", fat_units="thousand tons each month", protein_units="thousand tons each month")
        feed_s, grass_s = S.series("feed", N), S.series("grass", N)
        S.forall(N, lambda i: And(feed_s[i] >= 0, grass_s[i] >= 0))
        feed, grass = S.food(feed_s, zeros(), zeros(), **units), S.food(grass_s, zeros(), zeros(), **units)
        used_f, used_g = S.food(S.series("feed_used0", N), zeros(), zeros(), **units), S.food(S.series("grass_used0", N), zeros(), zeros(), **units)
        before = {k: {h: len(unwrap(hs[k]["obj"]).attrs[h]) for h in GROWING} for k in hs}
        return dict(args=[animals, ruminants, co, feed, grass, used_f, used_g, month], hs=hs, before=before, co=co, month=month)

    def ensures(self, S, a, res):
        hs = a["hs"]
        out = {}
        led, nonneg, grew, inv = [], [], [], []
        last = lambda h, n: V(unwrap(h["obj"]).attrs[n][-1])
        for k, h in hs.items():
            at = unwrap(h["obj"]).attrs
            births, natural, slaughter = last(h, "births_animals_month"), last(h, "other_death_causes_other_than_starving"), last(h, "slaughter")
            starve, hk_h, hk_s = last(h, "other_death_starving"), last(h, "homekill_healthy_this_month"), last(h, "homekill_starving_this_month")
            transfer = last(h, "transfer_population")
            if h["function"] == "milk":
                retiring, transfer_in = last(h, "retiring_milk_animals"), V(0)
                nonneg += [retiring >= 0, last(h, "transfer_births") >= 0]
            else:
                retiring, transfer_in = V(0), transfer
                nonneg.append(transfer >= 0)
            end = last(h, "population")
            led.append(end == Max(0, h["P"] + births + transfer_in - retiring - natural - slaughter - starve - hk_h - hk_s))
            nonneg += [end >= 0, births >= 0, natural >= 0, slaughter >= 0, starve >= 0, hk_h >= 0, hk_s >= 0,
                       last(h, "homekill_other_death_this_month") >= 0]
            grew.append(V(all(len(at[n]) == a["before"][k][n] + 1 for n in GROWING)))
            inv += [last(h, "pregnant_animals_total") >= 0, last(h, "pregnant_animals_birthing_this_month") >= 0,
                    V(at["current_population"]) == end]
            # slaughter against availability and target
            pre = h["P"] - natural - retiring + births + transfer_in
            tgt = h["par"]["target_population_head"]
            out.setdefault("slaughter_never_exceeds_the_animals_available", []).append(slaughter <= Max(pre, 0))
            out.setdefault("slaughter_never_takes_a_herd_below_its_target", []).append(
                And(Implies(pre >= tgt, pre - slaughter >= tgt), Implies(pre < tgt, slaughter == 0)))
        out["end_is_start_plus_inflows_minus_outflows_or_zero"] = led
        out["head_counts_and_flows_non_negative"] = nonneg
        out["every_history_list_grows_by_one_month"] = And(*grew)
        out["month_invariant_re_established"] = inv
        m, b = hs["milk"], hs["meat"]
        out["dairy_retirements_plus_surviving_calves_are_the_meat_herds_transfer"] = And(
            last(b, "transfer_population") == last(m, "retiring_milk_animals") + last(m, "transfer_births"),
            last(m, "transfer_population") == -(last(m, "retiring_milk_animals") + last(m, "transfer_births")),
            last(hs["other"], "transfer_population") == 0)
        # labour hours per size class
        hrs = []
        for size in ("small", "medium", "large"):
            members = [h for h in hs.values() if h["size"] == size]
            if members:
                used = Sum([last(h, "slaughter") * h["par"]["animal_slaughter_hours"] for h in members])
                cap = Sum([h["par"]["baseline_slaughter"] * h["par"]["animal_slaughter_hours"] for h in members])
                hrs.append(used <= cap)
        out["slaughter_hours_within_the_class_baseline_capacity"] = hrs
        return out


# ---- base case: the state main() puts the herds in before the first month ---------------------------------------

class MonthZeroState(Contract):
    """set_species_slaughter_attributes + append_month_zero establish the month invariant (base case of the
    induction over months) and non-negative month-0 flows, for every valid species row and transfer."""
    prop = "C06"
    file = AP
    func = "AnimalSpecies.append_month_zero"
    np_floats = True
    merge = True

    def __init__(self, function):
        self.function = function
        self.name = f"{function} herd: attributes set, month zero appended"

    def inputs(self, S):
        S.set_conversions(S.real("kd"), S.real("fd"), S.real("pd"), False, False, S.real("pop"))
        an = S.call(AP, "AnimalSpecies", "x_cattle", "cattle")
        pop, sl = S.real("head"), S.real("annual_slaughter")
        S.assume(And(pop > 0, sl >= 0))
        lsu, conv = S.real("LSU"), S.real("feed_conversion")
        S.assume(And(lsu >= 0, conv >= 0))
        I = S.I
        I.call_method(unwrap(an), "set_animal_attributes", [unwrap(pop), unwrap(sl), self.function, unwrap(lsu), "ruminant", "large", unwrap(conv)])
        if self.function == "milk":
            a0, a1, cyc = S.real("milk_age_start"), S.real("milk_age_end"), S.real("insemination_cycle")
            S.assume(And(a0 >= 0, a1 > a0, cyc > 0))
            I.call_method(unwrap(an), "set_species_milk_attributes", [unwrap(a0), unwrap(a1), unwrap(cyc), unwrap(S.real("milk_per_head"))])
            I.call_method(unwrap(an), "set_milk_birth", [])
            transfer = -V(I.call_method(unwrap(an), "set_initial_milk_transfer", []))
            # dairy rows: twice the heifer births plus the calves handed over cover baseline deaths (a ratio of row
            # constants, independent of the head count - checked on every shipped dairy row by species_rows_valid)
        else:
            transfer = S.real("transfer_from_dairy")
            # update_animal_objects_with_slaughter asserts transfer < initial population
            S.assume(And(transfer >= 0, transfer < pop))
        p = {n: S.real(n) for n in ("gestation", "death_rate_annual", "per_pregnancy", "hours", "slaughter_change", "preg_slaughter",
                                   "breeding_reduction", "target_fraction", "starvation_fraction")}
        S.assume(And(p["gestation"] > 0, p["death_rate_annual"] >= 0, p["death_rate_annual"] <= 12, p["per_pregnancy"] > 0, p["hours"] > 0,
                     p["slaughter_change"] >= 0, p["preg_slaughter"] >= 0, p["preg_slaughter"] <= 1, p["breeding_reduction"] >= 0,
                     p["breeding_reduction"] <= 1, p["target_fraction"] >= 0, p["starvation_fraction"] >= 0, p["starvation_fraction"] <= 1))
        if self.function == "milk":
            S.assume(2 * V(unwrap(an).attrs["births_animals_month_baseline"]) - transfer - p["death_rate_annual"] / 12 * pop >= 0)
        I.call_method(unwrap(an), "set_species_slaughter_attributes",
                      [unwrap(p[n]) for n in ("gestation", "death_rate_annual", "per_pregnancy", "hours", "slaughter_change", "preg_slaughter",
                                              "breeding_reduction", "target_fraction", "starvation_fraction")] + [unwrap(transfer)])
        return dict(args=[an], an=an, pop=pop)

    def ensures(self, S, a, res):
        at = unwrap(a["an"]).attrs
        last = lambda n: V(at[n][-1])
        return {"month_invariant_established": And(last("population") == a["pop"], V(at["current_population"]) == a["pop"],
                                                   last("slaughter") >= 0, V(at["baseline_slaughter"]) >= 0,
                                                   V(at["target_population_head"]) >= 0),
                "month_zero_pregnant_counts_non_negative": And(last("pregnant_animals_total") >= 0,
                                                               last("pregnant_animals_birthing_this_month") >= 0),
                "month_zero_births_non_negative": V(at["births_animals_month_baseline"]) >= 0,
                "one_entry_per_history_list": V(all(len(at[n]) == 1 for n in HIST) and len(at["births_animals_month"]) == 0)}


def species_rows_valid(repo, tier, seed):
    """The month contract's preconditions (valid species row) hold for every row of the shipped species tables."""
    t0 = time.time()
    bad = []
    p = os.path.join(repo, "data/no_food_trade/animal_feed_data/species_attributes.csv")
    n = 0
    with open(p, newline="") as f:
        for row in csv.DictReader(f):
            if not row.get("animal"):
                continue
            n += 1
            try:
                ok = (float(row["gestation"]) > 0 and float(row["animal_slaughter_hours"]) > 0 and float(row["animals_per_pregnancy"]) > 0
                      and 0 <= float(row["other_animal_death_rate_annual"]) <= 12 and row["animal size"] in ("small", "medium", "large"))
                if row["animal"].startswith("milk_"):
                    a0, a1, cyc = float(row["productive_milk_age_start"]), float(row["productive_milk_age_end"]), float(row["insemination_cycle_time_for_milk"])
                    ok = ok and a1 > a0 >= 0 and cyc > 0
                    if ok:
                        births = ((a1 - a0) / a1) / (cyc * 2)
                        handed_over = (births + (1 / a1) / 12) * (1 - 0.9)
                        ok = 2 * births + handed_over - float(row["other_animal_death_rate_annual"]) / 12 >= 0
            except (ValueError, KeyError) as e:
                ok = False
            if not ok:
                bad.append(row["animal"])
    p2 = os.path.join(repo, "data/no_food_trade/animal_feed_data/species_options.csv")
    m = 0
    with open(p2, newline="") as f:
        for row in csv.DictReader(f):
            m += 1
            try:
                ok = (0 <= float(row["reduction_in_animal_breeding"]) <= 1 and 0 <= float(row["pregnant_animal_slaughter_fraction"]) <= 1
                      and float(row["target_population_fraction"]) >= 0 and float(row["change_in_slaughter_rate"]) >= 0
                      and 0 <= float(row["starvation_death_fraction"]) <= 1)
            except (ValueError, KeyError):
                ok = False
            if not ok:
                bad.append(f"{row.get('scenario')}/{row.get('animal')}")
    ok = not bad and n >= 20 and m >= 40
    return [{"name": "C06/data/every_species_row_satisfies_the_contract_preconditions", "kind": "ground", "status": "discharged" if ok else "failed",
             "backend": "csv (exhaustive over the shipped tables)", "seconds": round(time.time() - t0, 2),
             "detail": f"{n} attribute rows, {m} option rows; invalid: {bad[:10]}", "goal": "valid_species_row(r) for every shipped row r",
             "replay_verdict": None if ok else "violation", "replay": None if ok else {"verdict": "violates-natively", "detail": bad}}]


def _mk():
    cs = []
    for mz in (True, False):
        cs.append(MonthStep(("milk", "meat", "other"), "large", mz))
        cs.append(MonthStep(("other", "meat", "milk"), "large", mz))
        cs.append(MonthStep(("meat", "other", "milk"), "medium", mz))
        cs.append(MonthStep(("milk", "other", "meat"), "large", mz, species=("camel", "camelids")))
        if os.environ.get("VERIF_TIER") == "thorough":
            # every order of the three herds, third herd in each size class
            import itertools
            for order in itertools.permutations(("milk", "meat", "other")):
                for size in ("small", "medium", "large"):
                    if (order, size) not in ((("milk", "meat", "other"), "large"), (("other", "meat", "milk"), "large"), (("meat", "other", "milk"), "medium")):
                        cs.append(MonthStep(order, size, mz))
    cs += [MonthZeroState("meat"), MonthZeroState("milk")]
    cs += [ChangeInPopulation(f, mz) for f in ("meat", "milk") for mz in (True, False)]
    cs += [HerdTail("meat"), HerdTail("milk")]
    return cs


CONTRACTS = _mk()
EXTRA = [species_rows_valid]
TRUSTED = [
    "machine floats treated as mathematical reals (np.float64 semantics for division: no ZeroDivisionError)",
    "the extraction keeps the month-loop body of main() verbatim and drops the pandas set-up above it, the loop header and the remove_first_month tail",
    "AnimalPopulation.feed_animals replaced by its contract (0 <= population_fed <= current_population per herd; leftovers within what was offered): C07",
    "three herds (dairy + meat herd of one species, a third meat herd in the same or another size class), three orders: the per-class hour fold is checked on these configurations, not by an invariant over an arbitrary herd list",
    "home-kill capacity is what main() configures (CountryData.calculate_homekill_hours / homekill_desperation_parameters, executed from source): zero hours",
    "induction over months: base (MonthZeroState) + step (MonthStep) give the invariant for every month",
]
NOT_DECIDED = []
ASSUMPTIONS = list(TRUSTED)
MIN_OBLIGATIONS = 40
LEVEL = "proof"
