"""C18 - hand-offs between rounds preserve totals, bounds and priorities.

Functions under contract (src/optimizer/parameters.py): Parameters.calculate_human_consumption_for_min_needs
(incl. nested consume), assert_consumption_within_limits, get_second_round_kcals_with_redistributed_meat,
fill_negatives_with_positives, increase_biofuels_then_feed.
"""
from pyvc.vc import Contract
from pyvc.spec import V, And, Or, Not, Implies, If, Abs, Min, Max, Sum, unwrap
from pyvc.loops import LoopSpec
from pyvc.values import Arr

PARAMS = "src/optimizer/parameters.py"
VALID = "src/optimizer/validate_results.py"
INTERP = "src/optimizer/interpret_results.py"

ORDER = ["fish", "meat", "dairy", "greenhouse", "outdoor_crops", "stored_food", "methane_scp", "cellulosic_sugar",
         "seaweed"]
# attribute of the round-1 result each food is read from (outdoor crops = immediate + new stored)
SOURCE = {
    "fish": "fish_kcals_equivalent", "meat": "meat_kcals_equivalent", "dairy": "milk_kcals_equivalent",
    "greenhouse": "greenhouse_kcals_equivalent", "stored_food": "stored_food_kcals_equivalent",
    "methane_scp": "scp_kcals_equivalent", "cellulosic_sugar": "cell_sugar_kcals_equivalent",
    "seaweed": "seaweed_kcals_equivalent",
}


def _assertion_only(interp, ctx, fv, args, kwargs):
    """Callee contract of the Validator round-2 checks: requires nothing, modifies nothing, returns None
    (they only assert; whether they can fire is not part of C18's postcondition)."""
    return None


class MinNeeds(Contract):
    prop = "C18"
    file = PARAMS
    func = "Parameters.calculate_human_consumption_for_min_needs"
    name = "greedy_fill"
    summaries = {
        (VALID, "Validator.verify_minimum_food_consumption_sum_round2"): _assertion_only,
        (VALID, "Validator.verify_food_usage_priorities_round2"): _assertion_only,
    }

    def __init__(self, integer_series=False):
        # integer_series: the no-feed round's series held as numpy INTEGER arrays (whole kcals, as a test or a caller
        # building Food(kcals=[400, 150, ...]) gives them): the amounts handed on are still real numbers - the cap
        # is - and must not be truncated to the dtype of what they are taken from
        self.integer_series = integer_series
        if integer_series:
            self.name = "greedy_fill_from_integer_valued_series"

    def inputs(self, S):
        N = S.int("N")
        S.assume(N >= 1)
        kd = S.real("KCALS_DAILY")
        T = S.real("THRESHOLD")
        p1 = S.real("percent_fed_round1")
        S.assume(And(kd > 0, T >= 0, T <= 100, p1 >= 0))
        S.set_conversions(kd, S.real("fat_daily"), S.real("protein_daily"), False, False, S.real("population"))
        units = dict(kcals_units="kcals per person per day each month",
                     fat_units="effective kcals per person per day each month",
                     protein_units="effective kcals per person per day each month")
        avail = {}
        attrs = {"percent_people_fed": p1, "include_protein": False, "include_fat": False}
        names = dict(SOURCE)
        names["immediate"] = "immediate_outdoor_crops_kcals_equivalent"
        names["new_stored"] = "new_stored_outdoor_crops_kcals_equivalent"
        for key, attr in names.items():
            s = S.series("a_" + key, N, dtype="int" if self.integer_series else "float")
            S.forall(N, lambda i, s=s: s[i] >= 0)
            avail[key] = s
            attrs[attr] = S.food(kcals=s, **units)
        r1 = S.obj(INTERP, "Interpreter", **attrs)
        consts = {"MINIMUM_PERCENT_FED_BEFORE_NONHUMAN_CONSUMPTION_ALLOWED": T,
                  "NUTRITION": {"KCALS_DAILY": kd}, "NMONTHS": N}
        consts = {k: unwrap(v) if not isinstance(v, dict) else {kk: unwrap(vv) for kk, vv in v.items()} for k, v in consts.items()}
        selfo = S.obj(PARAMS, "Parameters")
        return dict(args=[selfo, consts, r1, None], N=N, kd=kd, T=T, p1=p1, avail=avail)

    def ensures(self, S, a, res):
        i = S.idx("i", a["N"])
        av = a["avail"]
        A = {k: (av[k][i] if k != "outdoor_crops" else av["immediate"][i] + av["new_stored"][i]) for k in ORDER}
        X = {k: res[k].kcals[i] for k in ORDER}
        cap = a["kd"] * Min(a["p1"], a["T"]) / 100
        total_x = Sum(X[k] for k in ORDER)
        total_a = Sum(A[k] for k in ORDER)
        out = {
            "nine_foods_returned": V(sorted(unwrap(res).keys()) == sorted(ORDER)),
            "never_exceeds_what_people_ate": And(*[And(X[k] >= 0, X[k] <= A[k]) for k in ORDER]),
            "monthly_sum_is_min_of_available_and_cap": total_x == Min(total_a, cap),
            "monthly_sum_equals_cap_when_round1_result_is_the_worst_month":
                Implies(a["p1"] * a["kd"] / 100 <= total_a, total_x == cap),
        }
        # priority order: a food is touched only when every earlier food is exhausted
        prio = []
        for j, k in enumerate(ORDER):
            for e in ORDER[:j]:
                prio.append(Implies(X[k] > 0, X[e] == A[e]))
        out["filled_in_documented_priority_order"] = And(*prio)
        out["series_have_one_entry_per_month"] = And(*[V(unwrap(res)[k].attrs["kcals"].length) == a["N"] for k in ORDER])
        out["fat_and_protein_not_counted"] = And(*[And(res[k].fat[i] == 0, res[k].protein[i] == 0) for k in ORDER])
        return out


class Bump(Contract):
    prop = "C18"
    file = PARAMS
    func = "Parameters.increase_biofuels_then_feed"
    name = "bump"

    def inputs(self, S):
        N = S.int("N")
        S.assume(N >= 1)
        a = {k: S.series(k, N) for k in ("biofuel", "feed", "increase", "max_biofuel", "max_feed", "crops")}
        S.forall(N, lambda i: And(a["biofuel"][i] >= 0, a["feed"][i] >= 0, a["increase"][i] >= 0, a["crops"][i] >= 0,
                                  a["biofuel"][i] <= a["max_biofuel"][i], a["feed"][i] <= a["max_feed"][i]))
        a["N"] = N
        a["args"] = [S.obj(PARAMS, "Parameters"), a["biofuel"], a["feed"], a["increase"], a["max_biofuel"],
                     a["max_feed"], a["crops"]]
        return a

    def ensures(self, S, a, res):
        i = S.idx("i", a["N"])
        nb, nf = res[0], res[1]
        return {
            "biofuel_never_lowered": nb[i] >= a["biofuel"][i],
            "feed_never_lowered": nf[i] >= a["feed"][i],
            "biofuel_never_above_demand": nb[i] <= a["max_biofuel"][i],
            "feed_never_above_demand": nf[i] <= a["max_feed"][i],
            "one_entry_per_month": And(V(unwrap(nb).length) == a["N"], V(unwrap(nf).length) == a["N"]),
        }


class BumpAnyInputs(Contract):
    """The statement quantifies over ARBITRARY feed / biofuel / demand / availability series: also when a series
    already sits above its demand schedule (the hand-off tolerances allow that by a hair) the adjustment must not
    lower it, and must not raise it any further."""
    prop = "C18"
    file = PARAMS
    func = "Parameters.increase_biofuels_then_feed"
    name = "bump, inputs not assumed within their schedules"

    def inputs(self, S):
        N = S.int("N")
        S.assume(N >= 1)
        a = {k: S.series(k, N) for k in ("biofuel", "feed", "increase", "max_biofuel", "max_feed", "crops")}
        S.forall(N, lambda i: And(a["biofuel"][i] >= 0, a["feed"][i] >= 0, a["increase"][i] >= 0, a["crops"][i] >= 0,
                                  a["max_biofuel"][i] >= 0, a["max_feed"][i] >= 0))
        a["N"] = N
        a["args"] = [S.obj(PARAMS, "Parameters"), a["biofuel"], a["feed"], a["increase"], a["max_biofuel"], a["max_feed"], a["crops"]]
        return a

    def ensures(self, S, a, res):
        i = S.idx("i", a["N"])
        nb, nf = res[0], res[1]
        return {"biofuel_never_lowered": nb[i] >= a["biofuel"][i], "feed_never_lowered": nf[i] >= a["feed"][i],
                "biofuel_not_raised_above_demand": nb[i] <= Max(a["biofuel"][i], a["max_biofuel"][i]),
                "feed_not_raised_above_demand": nf[i] <= Max(a["feed"][i], a["max_feed"][i])}


CONTRACTS = [MinNeeds(), MinNeeds(integer_series=True), Bump(), BumpAnyInputs()]
TRUSTED = [
    "machine floats treated as mathematical reals (DESIGN 2.2)",
    "numpy element-wise models: minimum, maximum, where, zeros, zeros_like, array, arithmetic (npmodel.py)",
    "Validator.verify_minimum_food_consumption_sum_round2 / verify_food_usage_priorities_round2 summarised as "
    "assertion-only callees (no effect on the returned consumption)",
]
NOT_DECIDED = []
ASSUMPTIONS = list(TRUSTED)
MIN_OBLIGATIONS = 8


# ---- meat re-timing -----------------------------------------------------------------------------------


def fill_contract_clauses(S, arr0, res, n, i):
    """Postcondition of fill_negatives_with_positives, shared by its own (bounded) proof and by the
    summary its caller is verified against."""
    return {
        "one_entry_per_month": V(unwrap(res).length) == n,
        "positive_entries_only_shrink": Implies(arr0[i] >= 0, And(res[i] >= 0, res[i] <= arr0[i])),
        "negative_entries_only_rise": Implies(arr0[i] < 0, And(res[i] >= arr0[i], res[i] <= 0)),
    }


def fill_summary(interp, ctx, fv, args, kwargs):
    """Callee contract of Parameters.fill_negatives_with_positives used at its call site."""
    from pyvc.spec import Spec
    from pyvc.npmodel import np_array

    S = Spec(ctx, interp)
    arr0 = V(np_array(ctx, args[1], dtype="float"))
    n = V(unwrap(arr0).length)
    res = S.fresh_series("filled", n)
    S.forall(n, lambda i: And(*[c for k, c in fill_contract_clauses(S, arr0, res, n, i).items() if k != "one_entry_per_month"]))
    S.assume(S.total(res) == S.total(arr0))
    tot = S.total(arr0)
    S.forall(n, lambda i: Implies(tot >= 0, res[i] >= 0))
    return unwrap(res)


class FillNegatives(Contract):
    """Bounded stand-in: the nested data-dependent loops are unrolled for a literal length."""
    prop = "C18"
    file = PARAMS
    func = "Parameters.fill_negatives_with_positives"
    max_paths = 20000

    def __init__(self, n):
        self.n = n
        self.name = f"len{n}"
        self.bounded = f"series length = {n} (loops unrolled, all sign patterns)"

    def inputs(self, S):
        arr = S.series("arr", self.n)
        before = [V(unwrap(arr).get(k)) for k in range(self.n)]   # the caller's array as it was (a float ndarray)
        return dict(args=[S.obj(PARAMS, "Parameters"), arr], arr=arr, before=before)

    def ensures(self, S, a, res):
        n = self.n
        out = {}
        old = V(Arr(n, elems=[unwrap(x) for x in a["before"]], dtype="float"))
        for k in range(n):
            for name, c in fill_contract_clauses(S, old, res, n, k).items():
                out[f"{name}[{k}]"] = c
        out["sum_preserved"] = S.total(res) == S.total(old)
        out["all_non_negative_when_total_is"] = Implies(S.total(old) >= 0, And(*[res[k] >= 0 for k in range(n)]))
        # frame: the caller computes `filled - difference` afterwards, so its array must not be filled in place
        out["callers_array_left_as_it_was"] = And(V(unwrap(a["arr"]) is not unwrap(res)), *[a["arr"][k] == a["before"][k] for k in range(n)])

        return out


class Retime(Contract):
    prop = "C18"
    file = PARAMS
    func = "Parameters.get_second_round_kcals_with_redistributed_meat"
    name = "retime"
    summaries = {(PARAMS, "Parameters.fill_negatives_with_positives"): fill_summary}

    def inputs(self, S):
        N = S.int("N")
        S.assume(N >= 1)
        r1, r2 = S.series("round1_meat", N), S.series("round2_meat", N)
        S.forall(N, lambda i: And(r1[i] >= 0, r2[i] >= 0))
        m1, m2 = S.series("milk1", N), S.series("milk2", N)
        return dict(args=[S.obj(PARAMS, "Parameters"), r1, r2, m1, m2], N=N, r1=r1, r2=r2)

    def ensures(self, S, a, res):
        t1, t2 = S.total(a["r1"]), S.total(a["r2"])
        if unwrap(res) is None:
            return {"declined_only_when_round2_total_is_lower": t1 > t2}
        i = S.idx("i", a["N"])
        return {
            "accepted_only_when_round2_total_not_lower": t1 <= t2,
            "total_preserved": S.total(res) == t2,
            "every_month_non_negative": res[i] >= 0,
            "every_month_at_or_above_no_feed_level": res[i] >= a["r1"][i],
            "one_entry_per_month": V(unwrap(res).length) == a["N"],
        }


import os as _os
CONTRACTS += [Retime()] + [FillNegatives(n) for n in ((1, 2, 3, 4, 5) if _os.environ.get("VERIF_TIER") == "thorough" else (1, 2, 3, 4))]
TRUSTED += [
    "Parameters.fill_negatives_with_positives enters its caller's proof through its contract (sum preserved, "
    "entries keep their sign and only move towards zero, all entries >= 0 when the total is >= 0); that contract "
    "is itself only checked by the bounded stand-in (lengths 1..4) and is therefore an assumption for longer series",
]
