"""Shared LP-template plumbing for C01 / C02 / C04 / C12 / C03: template extraction from the real
Optimizer builders, instantiation, and the cumulative-sum induction obligations."""
import time
import z3
from pyvc import lp
from pyvc.lp import K, N, V, at, prove, template

ALL = ["stored_food", "meat", "outdoor_crops", "seaweed", "methane_scp", "cellulosic_sugar"]
BUILDERS = {
    "stored_food": "add_stored_food_to_model", "meat": "add_meat_to_model", "outdoor_crops": "add_outdoor_crops_to_model",
    "seaweed": "add_seaweed_to_model", "methane_scp": "add_methane_scp_to_model",
    "cellulosic_sugar": "add_cellulosic_sugar_to_model",
}

_cache = {}


def simp(f):
    return z3.simplify(f, som=False)


def get_templates(repo, store, otype, resources=tuple(ALL), **kw):
    """{builder name: z3 template with free month K}, world facts, sources - from the real source."""
    key = (repo, store, otype, tuple(resources), tuple(sorted(kw.items())))
    if key in _cache:
        return _cache[key]
    build = lambda S: lp.World(S, list(resources), store_between_years=store, optimization_type=otype, **kw)
    out, facts, sources, npaths = {}, None, {}, 0
    world = None
    for r in resources:
        fn = BUILDERS[r]
        paths, src = lp.month_templates(repo, build, lambda w, k, I, fn=fn: I.call_method(w.opt, fn, [k, w.variables]))
        bad = [p for p in paths if p.outcome != "return"]
        if bad:
            raise RuntimeError(f"{fn}: path raises {bad[0].detail} under {bad[0].pc}")
        out[fn] = simp(template(paths))
        npaths += len(paths)
        sources.update(src)
        facts = paths[0].facts
        world = paths[0].world
    # model-level per-month builders
    def feed(w, k, I):
        from pyvc.pulpmodel import LpModel
        m = LpModel("m", -1)
        return I.call_method(w.opt, "add_feed_biofuel_to_model", [m, w.variables, k, otype])
    paths, src = lp.month_templates(repo, build, feed)
    out["add_feed_biofuel_to_model"] = simp(template(paths))
    npaths += len(paths)
    if otype == "to_humans":
        def total(w, k, I):
            from pyvc.pulpmodel import LpModel
            m = LpModel("m", -1)
            r = I.call_method(w.opt, "add_total_human_consumption_to_model", [m, w.variables, k, otype])
            # the builder creates this month's consumed_* variables itself: name them V_consumed_*(k)
            w.subst = []
            for fam in ("consumed_kcals", "consumed_fat", "consumed_protein"):
                nv = w.variables[fam].get(K)
                w.subst.append((nv.term, V(fam)(K)))
            return r[0]
        paths, src = lp.month_templates(repo, build, total)
        out["add_total_human_consumption_to_model"] = simp(template(paths))
        out["_consumed_lowbound"] = paths[0]
        npaths += len(paths)

        def objective(w, k, I):
            from pyvc.pulpmodel import LpModel
            m = LpModel("m", -1)
            r = I.call_method(w.opt, "add_maximize_min_month_objective_to_model", [m, w.variables, k, []])
            return r[0]
        paths, src = lp.month_templates(repo, build, objective)
        out["add_maximize_min_month_objective_to_model"] = simp(template(paths))
        npaths += len(paths)
    def intake(w, k, I):
        from pyvc.pulpmodel import LpModel
        m = LpModel("m", -1)
        return I.call_method(w.opt, "add_percentage_intake_constraints", [m, w.variables, k, otype])
    paths, src = lp.month_templates(repo, build, intake)
    out["add_percentage_intake_constraints"] = simp(template(paths))
    npaths += len(paths)
    sources.update(src)
    if otype == "to_animals":
        for r in resources:
            def pinned(w, k, I, r=r):
                return I.call_method(w.opt, "assign_predetermined_human_consumption_of_foods",
                                     [None, k, w.variables, w.time_consts["min_human_food_consumption"], r])
            paths, src = lp.month_templates(repo, build, pinned)
            out["pinned:" + r] = simp(template(paths))
            npaths += len(paths)
    res = (out, facts, sources, npaths, world)
    _cache[key] = res
    return res


def nonneg(families, t):
    return [V(f)(t) >= 0 for f in families]


FAMILIES = [p.lower() for ps in lp.PREFIXES.values() for p in ps] + ["consumed_kcals", "consumed_fat", "consumed_protein"]


def world_facts(facts):
    """Facts about constants (waste in [0,100), needs > 0, N >= 14 ...): those without the month K."""
    return [f for f in facts if not lp_contains_k(f)]


def lp_contains_k(f):
    from pyvc.npmodel import _contains
    return _contains(f, K)


def series_nonneg(names, t):
    return [lp.series_fn(n)(t) >= 0 for n in names]


class Induction:
    """cum(m) = sum_{j<=m} summand(j); obligations base / step / conclude for an invariant I(m)."""

    def __init__(self, name):
        self.name = name
        self.records = []

    def add(self, rec):
        self.records.append(rec)
        return rec
