"""C11 - a food quantity's unit labels always describe its numbers.

Functions under contract (src/food_system/food.py, src/food_system/unit_conversions.py): Food.__init__, __add__,
__sub__, __mul__, __rmul__, __truediv__, __neg__, __getitem__, get_month, get_first_month, get_nutrients_sum,
get_running_total_nutrients_sum, get_min_all_months, get_max_all_months, min_elementwise, get_rounded_to_decimal,
negative_values_to_zero, shift, get_abs_values, the set_units*/get_units* helpers they call, and the comparison
predicates (all_/any_ greater/less [or_equal], *_zero).

Values are symbolic reals (series of literal length 3: the label logic never looks at the length, only at
scalar-vs-series); labels range over representatives of every class the code distinguishes by substring
('ratio', 'percent', ' each month', ' per month', anything else).
"""
from fractions import Fraction
import z3
from pyvc.vc import Contract, Ref
from pyvc.spec import V, And, Or, Not, Implies, If, Abs, Min, Max, Sum, Iff, unwrap
from pyvc.values import Arr, Sym, Obj

FOOD = "src/food_system/food.py"
N3 = 3
BASES = {
    "plain": ("billion kcals", "thousand tons", "thousand tons"),
    "ratio": ("ratio", "ratio", "ratio"),
    "percent": ("percent people fed", "percent people fed", "percent people fed"),
    "custom": ("apples", "pears", "plums"),
}
EACH, PER = " each month", " per month"


def conv(S):
    S.set_conversions(S.real("kd"), S.real("fd"), S.real("pd"), S.bool("include_fat"), S.bool("include_protein"), S.real("pop"))


def mk(S, tag, base, series, per=False):
    """A Food built by the real constructor: scalar (optionally ' per month') or 3-month series."""
    labels = BASES[base]
    if series:
        vals = [S.series(f"{tag}_{n}", N3) for n in ("k", "f", "p")]
        lab = tuple(l + EACH for l in labels)
    else:
        vals = [S.real(f"{tag}_{n}") for n in ("k", "f", "p")]
        lab = tuple(l + (PER if per else "") for l in labels)
    food = S.food(vals[0], vals[1], vals[2], *lab)
    return food, vals, lab


def labels_of(f):
    f = unwrap(f)
    return (f.attrs["kcals_units"], f.attrs["fat_units"], f.attrs["protein_units"])


def is_series(x):
    return isinstance(unwrap(x), Arr)


def well_formed(r):
    """The representation invariant every result must re-establish."""
    r = unwrap(r)
    if not isinstance(r, Obj):
        return V(False)
    labs = labels_of(r)
    vals = [r.attrs["kcals"], r.attrs["fat"], r.attrs["protein"]]
    ser = [isinstance(v, Arr) for v in vals]
    ok = list(r.attrs.get("units")) == list(labs) if r.attrs.get("units") is not None else False
    ok = ok and len(set(ser)) == 1
    if ser[0]:
        ok = ok and all(EACH in l for l in labs)
    else:
        ok = ok and all(EACH not in l for l in labs)
    return V(bool(ok))


def same_values(food, vals):
    f = V(food)
    out = []
    for attr, v in zip(("kcals", "fat", "protein"), vals):
        cur = getattr(f, attr)
        if is_series(v):
            out += [cur[j] == v[j] for j in range(N3)]
        else:
            out.append(cur == v)
    return And(*out)


def unchanged(food, vals, lab):
    return And(same_values(food, vals), V(labels_of(food) == lab and list(unwrap(food).attrs["units"]) == list(lab)))


def elementwise(res, f, *operand_vals):
    """res.<nutrient> == f(operand nutrient values...) element by element (broadcasting scalars)."""
    out = []
    r = V(res)
    for n, attr in enumerate(("kcals", "fat", "protein")):
        cur = getattr(r, attr)
        args = [ov[n] for ov in operand_vals]
        if is_series(cur):
            for j in range(N3):
                out.append(cur[j] == f(*[(a[j] if is_series(a) else a) for a in args]))
        else:
            out.append(cur == f(*args))
    return And(*out)


class BinOp(Contract):
    prop = "C11"
    file = FOOD
    replayable = True
    np_floats = True

    def __init__(self, op, base_a, ser_a, base_b, ser_b, expect):
        self.op, self.ba, self.sa, self.bb, self.sb, self.expect = op, base_a, ser_a, base_b, ser_b, expect
        self.func = f"Food.{op}"
        self.name = f"{base_a}{'[]' if ser_a else ''} {op} {base_b}{'[]' if ser_b else ''}"
        if expect == "reject":
            self.raises = "allowed"

    def inputs(self, S):
        conv(S)
        a, av, al = mk(S, "a", self.ba, self.sa)
        b, bv, bl = mk(S, "b", self.bb, self.sb)
        if self.op == "__truediv__":
            for x in bv:
                S.assume(And(*[x[j] != 0 for j in range(N3)]) if is_series(x) else x != 0)
        return dict(args=[a, b], a=a, b=b, av=av, bv=bv, al=al, bl=bl)

    def ensures(self, S, p, res):
        if self.expect == "reject":
            return {"different_units_are_refused": V(False)}
        series = self.sa or self.sb
        if self.expect == "a":
            lab = p["al"]
        elif self.expect == "b":
            lab = p["bl"]
        elif self.expect == "ratio":
            lab = BASES["ratio"]
        base = tuple(l.replace(EACH, "") for l in lab)
        want = tuple(l + (EACH if series else "") for l in base)
        f = {"__add__": lambda x, y: x + y, "__sub__": lambda x, y: x - y, "__mul__": lambda x, y: x * y,
             "__truediv__": lambda x, y: x / y}[self.op]
        return {
            "result_labels_describe_the_result": V(labels_of(res) == want),
            "label_list_and_shape_agree_with_labels": well_formed(res),
            "values_are_the_elementwise_result": elementwise(res, f, p["av"], p["bv"]),
            "operands_not_modified": And(unchanged(p["a"], p["av"], p["al"]), unchanged(p["b"], p["bv"], p["bl"])),
        }

    def on_raise(self, S, p, exc):
        if self.expect == "reject":
            return {"different_units_are_refused": V(exc.cls_name == "AssertionError"),
                    "operands_not_modified": And(unchanged(p["a"], p["av"], p["al"]), unchanged(p["b"], p["bv"], p["bl"]))}
        return {f"no_exception[{exc.cls_name}]": V(False)}


class ScalarFactor(Contract):
    """number * food, food * number, food / number: labels of the food."""
    prop = "C11"
    file = FOOD
    np_floats = True

    def __init__(self, op, base, series):
        self.op, self.base, self.series = op, base, series
        self.func = f"Food.{op}"
        self.name = f"{base}{'[]' if series else ''} {op} number"

    def inputs(self, S):
        conv(S)
        a, av, al = mk(S, "a", self.base, self.series)
        c = S.real("c")
        if self.op == "__truediv__":
            S.assume(c != 0)
        return dict(args=[a, c], a=a, av=av, al=al, c=c)

    def ensures(self, S, p, res):
        c = p["c"]
        f = (lambda x: x / c) if self.op == "__truediv__" else (lambda x: x * c)
        return {
            "result_labels_describe_the_result": V(labels_of(res) == p["al"]),
            "label_list_and_shape_agree_with_labels": well_formed(res),
            "values_are_the_elementwise_result": elementwise(res, f, p["av"]),
            "operands_not_modified": unchanged(p["a"], p["av"], p["al"]),
        }


class Unary(Contract):
    prop = "C11"
    file = FOOD
    np_floats = True
    merge = True

    # op -> (extra args, expected label transform, expected shape, value function or None)
    def __init__(self, op, base, series, per=False, numpy_index=False):
        self.op, self.base, self.series, self.per, self.numpy_index = op, base, series, per, numpy_index
        self.func = f"Food.{op}"
        self.name = f"{op}({base}{'[]' if series else (' per month' if per else '')})" + (" with a numpy integer index" if numpy_index else "")

    def inputs(self, S):
        conv(S)
        a, av, al = mk(S, "a", self.base, self.series, per=self.per)
        extra = {"get_month": [1], "__getitem__": [1], "get_rounded_to_decimal": [3], "shift": [1]}.get(self.op, [])
        if self.numpy_index:
            from pyvc.values import NpInt
            extra = [NpInt(1)]   # e.g. food[np.argmax(...)]: an integer that is not a Python int
        return dict(args=[a] + extra, a=a, av=av, al=al)

    def ensures(self, S, p, res):
        op, lab = self.op, p["al"]
        base = tuple(l.replace(EACH, "").replace(PER, "") for l in lab)
        out = {"label_list_and_shape_agree_with_labels": well_formed(res),
               "operands_not_modified": unchanged(p["a"], p["av"], p["al"])}
        same_shape = {"__neg__", "get_abs_values", "get_rounded_to_decimal", "negative_values_to_zero", "shift",
                      "get_running_total_nutrients_sum"}
        one_month = {"get_month", "get_first_month", "__getitem__"}
        totals = {"get_nutrients_sum": "", "get_min_all_months": "", "get_max_all_months": ""}
        av = p["av"]
        if op in same_shape:
            out["result_labels_describe_the_result"] = V(labels_of(res) == lab)
            fn = {"__neg__": lambda x: -x, "get_abs_values": lambda x: Abs(x), "negative_values_to_zero": lambda x: Max(x, 0)}.get(op)
            if fn is not None:
                out["values_are_the_elementwise_result"] = elementwise(res, fn, av)
            if op == "shift":
                r = V(res)
                out["values_are_the_elementwise_result"] = And(*[And(getattr(r, n)[0] == 0, getattr(r, n)[1] == v[0], getattr(r, n)[2] == v[1])
                                                                 for n, v in zip(("kcals", "fat", "protein"), av)])
            if op == "get_running_total_nutrients_sum":
                r = V(res)
                out["values_are_the_elementwise_result"] = And(*[And(getattr(r, n)[0] == v[0], getattr(r, n)[1] == v[0] + v[1],
                                                                     getattr(r, n)[2] == v[0] + v[1] + v[2])
                                                                 for n, v in zip(("kcals", "fat", "protein"), av)])
            if op == "get_rounded_to_decimal":
                r = V(res)
                out["values_are_the_elementwise_result"] = And(*[Abs((getattr(r, n)[j] if self.series else getattr(r, n)) - (v[j] if self.series else v)) <= Fraction(5, 10 ** 4)
                                                                 for n, v in zip(("kcals", "fat", "protein"), av) for j in (range(N3) if self.series else [0])])
        elif op in one_month:
            # the value of one month: a single number, labelled '<unit> per month'
            want = tuple(b + PER for b in base)
            out["result_labels_describe_the_result"] = V(labels_of(res) == want)
            idx = 0 if op == "get_first_month" else 1
            r = V(res)
            out["values_are_the_elementwise_result"] = And(*[getattr(r, n) == v[idx] for n, v in zip(("kcals", "fat", "protein"), av)])
            out["result_is_a_single_value"] = V(not is_series(unwrap(res).attrs["kcals"]))
        else:
            want = tuple(b for b in base)
            out["result_labels_describe_the_result"] = V(labels_of(res) == want)
            r = V(res)
            fn = {"get_nutrients_sum": lambda v: v[0] + v[1] + v[2], "get_min_all_months": lambda v: Min(v[0], v[1], v[2]),
                  "get_max_all_months": lambda v: Max(v[0], v[1], v[2])}[op]
            out["values_are_the_elementwise_result"] = And(*[getattr(r, n) == fn(v) for n, v in zip(("kcals", "fat", "protein"), av)])
        return out


class Construct(Contract):
    """Food(...) with every combination of labels that do / do not already say ' each month', with the fat and
    protein series given or left to their defaults."""
    prop = "C11"
    file = FOOD
    func = "Food"

    def __init__(self, base, series, labelled_each, only_kcals=False):
        if isinstance(labelled_each, bool):
            labelled_each = (labelled_each,) * 3
        self.base, self.series, self.labelled_each, self.only_kcals = base, series, tuple(labelled_each), only_kcals
        mask = "".join("m" if x else "-" for x in self.labelled_each)
        self.name = (f"Food({base}{'[]' if series else ''}" + (f", labels already each month:{mask}" if any(self.labelled_each) else "")
                     + (", fat and protein left to default" if only_kcals else "") + ")")

    def inputs(self, S):
        conv(S)
        labels = BASES[self.base]
        if self.series:
            vals = [S.series(n, N3) for n in ("k", "f", "p")]
        else:
            vals = [S.real(n) for n in ("k", "f", "p")]
        lab = tuple(l + (EACH if m else "") for l, m in zip(labels, self.labelled_each))
        if self.only_kcals:
            zeros = V(Arr(N3, elems=[Fraction(0)] * N3, dtype="float")) if self.series else V(0)
            return dict(args=[vals[0]], kwargs=dict(kcals_units=lab[0], fat_units=lab[1], protein_units=lab[2]),
                        vals=[vals[0], zeros, zeros], lab=lab)
        return dict(args=[vals[0], vals[1], vals[2], *lab], vals=vals, lab=lab)

    def ensures(self, S, p, res):
        want = tuple(l.replace(EACH, "") + (EACH if self.series else "") for l in p["lab"])
        return {"result_labels_describe_the_result": V(labels_of(res) == want),
                "label_list_and_shape_agree_with_labels": well_formed(res),
                "values_are_the_elementwise_result": same_values(res, p["vals"])}


class OwnStorage(Contract):
    """'Never modifies its operands', one step later: a Food built from numpy arrays owns its numbers - an in-place
    edit of the RESULT (set_to_zero_after_month writes into the result's arrays) leaves the arrays it was built from as
    they were.  (A constructor that kept the caller's arrays would pass every single-operation frame clause.)"""
    prop = "C11"
    file = FOOD
    func = "Food"
    name = "Food(plain[]) then an in-place edit of the result"
    np_floats = True

    def inputs(self, S):
        conv(S)
        labels = BASES["plain"]
        vals = [S.series(n, N3) for n in ("k", "f", "p")]
        self.before = [[unwrap(v).get(i) for i in range(N3)] for v in vals]
        self.arrays = [unwrap(v) for v in vals]
        lab = tuple(l + EACH for l in labels)
        calls = [dict(func="Food", args=[vals[0], vals[1], vals[2], *lab]),
                 dict(func="Food.set_to_zero_after_month", args=[Ref(0), 1])]
        return dict(calls=calls)

    def ensures(self, S, p, res):
        same = [V(a.get(i)) == V(b[i]) for a, b in zip(self.arrays, self.before) for i in range(N3)]
        edited = V(unwrap(res)[0]).kcals[N3 - 1] == 0
        return {"arrays_the_food_was_built_from_are_left_as_they_were": And(*same),
                "the_edit_reached_the_result": edited}


class MinElementwise(Contract):
    prop = "C11"
    file = FOOD
    func = "Food.min_elementwise"
    np_floats = True

    def __init__(self, base, same=True):
        self.base, self.same = base, same
        self.name = f"min_elementwise({base}[], {'same' if same else 'other'} units)"
        if not same:
            self.raises = "allowed"

    def inputs(self, S):
        conv(S)
        a, av, al = mk(S, "a", self.base, True)
        b, bv, bl = mk(S, "b", self.base if self.same else "custom", True)
        return dict(args=[a, b], a=a, b=b, av=av, bv=bv, al=al, bl=bl)

    def ensures(self, S, p, res):
        if not self.same:
            return {"different_units_are_refused": V(False)}
        return {"result_labels_describe_the_result": V(labels_of(res) == p["al"]),
                "label_list_and_shape_agree_with_labels": well_formed(res),
                "values_are_the_elementwise_result": elementwise(res, lambda x, y: Min(x, y), p["av"], p["bv"]),
                "operands_not_modified": And(unchanged(p["a"], p["av"], p["al"]), unchanged(p["b"], p["bv"], p["bl"]))}

    def on_raise(self, S, p, exc):
        if not self.same:
            return {"different_units_are_refused": V(exc.cls_name == "AssertionError")}
        return {f"no_exception[{exc.cls_name}]": V(False)}


BINARY_PREDS = ["all_greater_than", "all_less_than", "any_greater_than", "any_less_than", "all_greater_than_or_equal_to",
                "all_less_than_or_equal_to", "any_greater_than_or_equal_to", "any_less_than_or_equal_to"]
UNARY_PREDS = ["all_equals_zero", "any_equals_zero", "all_greater_than_zero", "any_greater_than_zero",
               "all_greater_than_or_equal_to_zero", "is_never_negative"]


class Predicate(Contract):
    """P(single value) == P(the equivalent one-month series), for every value and flag setting."""
    prop = "C11"
    file = FOOD
    np_floats = True

    def __init__(self, pred, inc_fat, inc_protein):
        self.pred, self.inc_fat, self.inc_protein = pred, inc_fat, inc_protein
        self.func = f"Food.{pred}"
        self.name = f"{pred}[fat {'counted' if inc_fat else 'ignored'}, protein {'counted' if inc_protein else 'ignored'}]"

    def inputs(self, S):
        S.set_conversions(S.real("kd"), S.real("fd"), S.real("pd"), self.inc_fat, self.inc_protein, S.real("pop"))
        v = [S.real(n) for n in ("vk", "vf", "vp")]
        w = [S.real(n) for n in ("wk", "wf", "wp")]
        lab = BASES["plain"]
        one = lambda x: V(Arr(1, elems=[unwrap(x)], dtype="float"))
        a_s = S.food(v[0], v[1], v[2], *lab)
        a_l = S.food(one(v[0]), one(v[1]), one(v[2]), *[l + EACH for l in lab])
        calls = []
        if self.pred in BINARY_PREDS:
            b_s = S.food(w[0], w[1], w[2], *lab)
            b_l = S.food(one(w[0]), one(w[1]), one(w[2]), *[l + EACH for l in lab])
            calls = [dict(func=self.func, args=[a_s, b_s]), dict(func=self.func, args=[a_l, b_l])]
        else:
            calls = [dict(func=self.func, args=[a_s]), dict(func=self.func, args=[a_l])]
        return dict(calls=calls)

    def ensures(self, S, p, res):
        r = unwrap(res)
        return {"single_value_and_one_month_series_agree": Iff(V(S.I.truth(r[0])), V(S.I.truth(r[1])))}


class MixedPredicate(Contract):
    """all_less_than_or_equal_to / any_less_than_or_equal_to accept a single value against a monthly series: the answer
    is the documented broadcast (the single value compared with every month) and BOTH operands - values, labels and
    the unit list - are left exactly as they were."""
    prop = "C11"
    file = FOOD
    np_floats = True

    def __init__(self, pred, order):
        self.pred, self.order = pred, order
        self.func = f"Food.{pred}"
        self.name = f"{pred}({order[0]}, {order[1]})"

    def inputs(self, S):
        S.set_conversions(S.real("kd"), S.real("fd"), S.real("pd"), True, True, S.real("pop"))
        s_, sv, sl = mk(S, "s", "plain", False)
        l_, lv, ll = mk(S, "l", "plain", True)
        ops_ = {"single value": s_, "series": l_}
        return dict(args=[ops_[self.order[0]], ops_[self.order[1]]], s=s_, sv=sv, sl=sl, l=l_, lv=lv, ll=ll)

    def ensures(self, S, p, res):
        return {"operands_not_modified": And(unchanged(p["s"], p["sv"], p["sl"]), unchanged(p["l"], p["lv"], p["ll"]))}


def _mk():
    cs = []
    for b in ("plain", "custom"):
        for s in (False, True):
            cs.append(Construct(b, s, False))
    import itertools
    for mask in itertools.product((False, True), repeat=3):
        if any(mask):
            cs.append(Construct("plain", True, mask))
    for mask in ((False, False, False), (True, True, True), (True, False, False), (False, True, True)):
        cs.append(Construct("plain", True, mask, only_kcals=True))
    cs.append(Construct("plain", False, False, only_kcals=True))
    for op in ("__add__", "__sub__"):
        for s in (False, True):
            cs.append(BinOp(op, "plain", s, "plain", s, "a"))
            cs.append(BinOp(op, "percent", s, "percent", s, "a"))
            cs.append(BinOp(op, "plain", s, "custom", s, "reject"))
    # multiplication by a dimensionless ratio keeps the other operand's units whichever side the ratio is on
    # (a monthly ratio times a single non-ratio value is documented as unsupported and refused - not mislabelled)
    for sa, sb in ((False, False), (True, True), (False, True)):
        cs.append(BinOp("__mul__", "ratio", sa, "plain", sb, "b"))
    for sa, sb in ((False, False), (True, True), (True, False)):
        cs.append(BinOp("__mul__", "plain", sa, "ratio", sb, "a"))
    cs.append(BinOp("__mul__", "ratio", True, "plain", False, "reject"))
    cs.append(BinOp("__mul__", "plain", False, "ratio", True, "reject"))
    cs.append(BinOp("__mul__", "ratio", False, "ratio", False, "ratio"))
    cs.append(BinOp("__mul__", "ratio", True, "ratio", True, "ratio"))
    cs.append(BinOp("__mul__", "plain", False, "custom", False, "reject"))
    cs.append(BinOp("__mul__", "plain", True, "custom", True, "reject"))
    for s in (False, True):
        cs.append(BinOp("__truediv__", "plain", s, "plain", s, "ratio"))
        cs.append(BinOp("__truediv__", "plain", s, "custom", s, "reject"))
        for op in ("__mul__", "__rmul__", "__truediv__"):
            cs.append(ScalarFactor(op, "plain", s))
    for op in ("__neg__", "get_abs_values", "negative_values_to_zero"):
        for s in (False, True):
            cs.append(Unary(op, "plain", s))
    cs.append(Unary("get_rounded_to_decimal", "plain", True))  # documented: implemented for monthly series only
    for op in ("shift", "get_running_total_nutrients_sum", "get_month", "get_first_month", "__getitem__", "get_nutrients_sum",
               "get_min_all_months", "get_max_all_months"):
        cs.append(Unary(op, "plain", True))
        cs.append(Unary(op, "custom", True))
    cs.append(Unary("__getitem__", "plain", True, numpy_index=True))
    cs.append(Unary("get_month", "plain", True, numpy_index=True))
    cs.append(MinElementwise("plain", True))
    cs.append(MinElementwise("plain", False))
    cs.append(MixedPredicate("all_less_than_or_equal_to", ("single value", "series")))
    cs.append(MixedPredicate("all_less_than_or_equal_to", ("series", "single value")))
    cs.append(MixedPredicate("any_less_than_or_equal_to", ("series", "single value")))
    for pr in BINARY_PREDS + UNARY_PREDS:
        for fat in (True, False):
            for prot in (True, False):
                cs.append(Predicate(pr, fat, prot))
    cs.append(OwnStorage())
    return cs


CONTRACTS = _mk()


def _c10():
    """'conversion' is one of the operations of the statement: the converted NUMBERS must be the ones the new labels
    describe - C10's contracts on get_conversion / in_units (value = ratio of the unit meanings, labels, shape, frame),
    re-run under this property."""
    from contracts import C10
    from contracts.common import relabelled
    return relabelled([c for c in C10.CONTRACTS if type(c).__name__ in ("Conversion", "InUnits")], "C11")


CONTRACTS += _c10()
TRUSTED = [
    "labels range over representatives of the classes the code distinguishes by substring ('ratio', 'percent', ' each month', ' per month', other); series have literal length 3 (1 for the predicate equivalence) - the label logic never inspects the length",
    "machine floats treated as mathematical reals; numpy element-wise models; conversion (in_units) is C10",
    "sequences of operations are covered because every contract's postcondition re-establishes the representation invariant (label list = the three labels; ' each month' iff series) that every precondition asks for",
]
NOT_DECIDED = []
ASSUMPTIONS = list(TRUSTED)
MIN_OBLIGATIONS = 150
