"""C09 - cropland is neither double-counted nor lost between crops and greenhouses.

Functions under contract: OutdoorCrops.__init__, calculate_rotation_ratios, calculate_monthly_production,
get_year_1_ratio_using_fraction_harvest_before_may, assign_reduction_from_climate_impact,
assign_increase_from_increased_cultivated_area, set_crop_production_minus_greenhouse_area
(src/food_system/outdoor_crops.py); Greenhouses.__init__, get_greenhouse_area,
assign_productivity_reduction_from_climate_impact (src/food_system/greenhouses.py);
Parameters.init_outdoor_crops, init_greenhouse_params (src/optimizer/parameters.py).
"""
from pyvc.vc import Contract, Ref
from pyvc.spec import V, And, Or, Not, Implies, If, Abs, Min, Max, Sum, unwrap
from contracts.common import crop_constants, PARAMS, HORIZONS

OC = "src/food_system/outdoor_crops.py"
GH = "src/food_system/greenhouses.py"


class CropsMinusGreenhouses(Contract):
    """Outdoor output = grown x (1 - greenhouse fraction) x (1 - distribution waste), every month, for an
    arbitrary greenhouse-fraction series, with and without relocation; nothing is rounded or truncated."""
    prop = "C09"
    file = OC
    func = "OutdoorCrops.set_crop_production_minus_greenhouse_area"
    merge = True
    np_floats = True

    def __init__(self, N, rotation, expand=False, outdoor=True, years=3):
        self.N, self.rotation, self.expand, self.outdoor, self.years = N, rotation, expand, outdoor, years
        self.name = (f"N{N},{'relocated' if rotation else 'not_relocated'}{',expanded' if expand else ''}{'' if outdoor else ',no_outdoor'}"
                     + ("" if years == 3 else f",expansion_takes_{years}_years"))

    def inputs(self, S):
        N = self.N
        consts, p = crop_constants(S, N, self.rotation, True, outdoor=self.outdoor, expand=self.expand, years_to_expand=self.years)
        ghf = S.series("greenhouse_fraction", N)
        S.assume(And(*[And(ghf[m] >= 0, ghf[m] <= 1) for m in range(N)]))
        params = S.call(PARAMS, "Parameters")
        p.update(consts=consts, ghf=ghf)
        p["calls"] = [
            dict(file=PARAMS, func="Parameters.init_outdoor_crops", args=[params, {}, consts]),
            dict(file=OC, func=self.func, args=[Ref(0, 1), consts, ghf]),
        ]
        return p

    def ensures(self, S, a, res):
        N = self.N
        oc = V(unwrap(res)[0][1])
        hd = 8 + 2
        out = {}
        keep = 1 - a["waste_d"] / 100
        exact, reloc, series_len = [], [], []
        for m in range(N):
            if not self.outdoor:
                exact.append(oc.production.kcals[m] == 0)
                continue
            grown_r, grown_n = oc.KCALS_GROWN[m], oc.NO_RELOCATION_KCALS_GROWN[m]
            grown = grown_r if (self.rotation and m >= hd) else grown_n
            exact.append(oc.production.kcals[m] == grown * (1 - a["ghf"][m]) * keep)
            reloc.append(grown_r >= grown_n)
        out["output_is_grown_less_greenhouse_share_less_waste_unrounded"] = And(*exact)
        if self.outdoor:
            out["relocation_and_expansion_never_lower_a_month"] = reloc
        out["one_value_per_month"] = V(unwrap(oc.production.kcals).length == N)
        return out


class GreenhouseArea(Contract):
    """Greenhouse area: zero until delay + 5 months, then non-decreasing, never above its configured share."""
    prop = "C09"
    file = GH
    func = "Greenhouses.get_greenhouse_area"
    merge = True
    np_floats = True

    def __init__(self, N, delay, add=True):
        self.N, self.delay, self.add = N, delay, add
        self.name = f"N{N},delay{delay}{'' if add else ',off'}"

    def inputs(self, S):
        consts, p = crop_constants(S, self.N, True, self.add, gh_delay=self.delay)
        params = S.call(PARAMS, "Parameters")
        p["calls"] = [
            dict(file=PARAMS, func="Parameters.init_outdoor_crops", args=[params, {}, consts]),
            dict(file=GH, func="Greenhouses", args=[consts]),
            dict(file=GH, func=self.func, args=[Ref(1), consts, Ref(0, 1)]),
        ]
        return p

    def ensures(self, S, a, res):
        N = self.N
        gh, area = V(unwrap(res)[1]), V(unwrap(res)[2])
        total = a["area"] * a["frac"]
        limit = total * a["mult"] if self.add else V(0)
        zero, mono, cap, frac = [], [], [], []
        for m in range(N):
            if m < self.delay + 5 or not self.add:
                zero.append(area[m] == 0)
            if m + 1 < N:
                mono.append(area[m] <= area[m + 1])
            cap.append(And(area[m] >= 0, area[m] <= limit))
            frac.append(gh.greenhouse_fraction_area[m] == area[m] / total)
        out = {
            "zero_until_delay_has_passed": And(*zero),
            "rises_monotonically": And(*mono),
            "never_above_configured_share_of_cropland": And(*cap),
            "fraction_is_area_over_cropland": And(*frac),
            "one_value_per_month": V(unwrap(area).length == N),
        }
        if self.add and self.delay + 5 + 36 < N:
            out["reaches_configured_share"] = area[self.delay + 5 + 36] == limit
        return out


class Chain(Contract):
    """Parameters.init_greenhouse_params hands the greenhouse fraction it computed to the crop series:
    time_consts['outdoor_crops'].production = grown x (1 - greenhouse area / cropland) x (1 - waste)."""
    prop = "C09"
    file = PARAMS
    func = "Parameters.init_greenhouse_params"
    merge = True
    np_floats = True

    def __init__(self, N, rotation, greenhouses):
        self.N, self.rotation, self.greenhouses = N, rotation, greenhouses
        self.name = f"N{N},{'relocated' if rotation else 'not_relocated'},{'greenhouses' if greenhouses else 'no_greenhouses'}"

    def inputs(self, S):
        consts, p = crop_constants(S, self.N, self.rotation, self.greenhouses)
        params = S.call(PARAMS, "Parameters")
        p["calls"] = [
            dict(file=PARAMS, func="Parameters.init_outdoor_crops", args=[params, {}, consts]),
            dict(file=PARAMS, func=self.func, args=[params, {}, consts, Ref(0, 1)]),
            dict(file=GH, func="Greenhouses", args=[consts]),
            dict(file=GH, func="Greenhouses.get_greenhouse_area", args=[Ref(2), consts, Ref(0, 1)]),
        ]
        return p

    def ensures(self, S, a, res):
        N = self.N
        r = unwrap(res)
        oc = V(r[1]["outdoor_crops"])
        area = V(r[3])
        total = a["area"] * a["frac"]
        keep = 1 - a["waste_d"] / 100
        hd = 10
        exact = []
        for m in range(N):
            grown = oc.KCALS_GROWN[m] if (self.rotation and m >= hd) else oc.NO_RELOCATION_KCALS_GROWN[m]
            exact.append(oc.production.kcals[m] == grown * (1 - area[m] / total) * keep)
        return {
            "cropland_under_greenhouses_is_removed_from_outdoor_output": And(*exact),
            "same_crops_object_is_handed_on": V(r[1]["outdoor_crops"] is r[0][1]),
        }


def _mk():
    cs = []
    for N in HORIZONS:
        for rot in (True, False):
            cs.append(CropsMinusGreenhouses(N, rot))
    cs.append(CropsMinusGreenhouses(120, True, expand=True))
    # the expansion ramp for an immediate expansion and a one-year ramp (the scenario setter uses three years)
    cs.append(CropsMinusGreenhouses(48, True, expand=True, years=0))
    cs.append(CropsMinusGreenhouses(48, True, expand=True, years=1))
    cs.append(CropsMinusGreenhouses(48, True, outdoor=False))
    for N in (48, 120):
        for delay in (0, 2, 6):
            cs.append(GreenhouseArea(N, delay))
    cs.append(GreenhouseArea(72, 2, add=False))
    for N in (48, 120):
        for rot in (True, False):
            for g in (True, False):
                cs.append(Chain(N, rot, g))
    return cs


CONTRACTS = _mk()
TRUSTED = [
    "machine floats treated as mathematical reals",
    "numpy models (linspace, append, multiply, array, zeros, slices); real powers x**e by the stated axioms only",
    "integer-valued settings are the scenario setters' values (harvest 8, rotation delay 2; greenhouse delay 0/2/6 enumerated)",
    "valid_country_row: seasonality >= 0 summing to 1, yearly ratios >= 0, wastes in [0,100), areas > 0",
]
NOT_DECIDED = []
ASSUMPTIONS = list(TRUSTED)
MIN_OBLIGATIONS = 40
