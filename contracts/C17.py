"""C17 - shipped input tables: row invariants of the combined table and the percentage-averaging helper.

Decided: (b) every row of data/no_food_trade/computer_readable_combined.csv satisfies valid_country_row -
ground obligations, exhaustive over the committed artefact, including the repository's own
ScenarioRunnerNoTrade.verify_country_data executed from source on each row; (c) ImportUtilities.
weighted_average_percentages / average_percentages for lists of ANY length (loop invariant).
Not decided: (a) re-running the 21 import scripts (pandas/openpyxl regeneration) - not a contract question.
"""
import csv
import math
import os
import time
from fractions import Fraction
import z3
from pyvc.vc import Contract
from pyvc.spec import V, And, Or, Not, Implies, If, Abs, Min, Max, Sum, unwrap
from pyvc.values import Arr, Sym
from pyvc.loops import LoopSpec

IU = "src/utilities/import_utilities.py"
RM = "src/scenarios/run_model_no_trade.py"
SENTINEL = Fraction("9.37e36")


class WeightedAverage(Contract):
    prop = "C17"
    file = IU
    func = "ImportUtilities.weighted_average_percentages"
    name = "any_length"
    raises = "allowed"

    def inputs(self, S):
        N = S.int("N")
        S.assume(N >= 1)
        p = S.series("percentages", N, nd=False)
        w = S.series("weights", N, nd=False)
        lo, hi = S.real("lowest_valid"), S.real("highest_valid")
        valid = lambda i: And(p[i] <= 100000, p[i] >= -100)
        S.assume(And(lo >= -100, hi <= 100000, lo <= hi))  # the range of the valid inputs lies inside the validity window
        S.forall(N, lambda i: And(w[i] >= 0, w[i] <= 1, Implies(valid(i), And(lo <= p[i], p[i] <= hi))))
        tot = S.total(w)
        S.assume(And(tot <= Fraction("1.00001"), tot > Fraction("0.99999")))
        a = dict(args=[p, w], N=N, p=p, w=w, lo=lo, hi=hi, tot=tot)

        def vsum(k, f):
            return S.total(V(Arr(unwrap(k), fn=lambda i: unwrap(f(V(Sym(i, "int") if not isinstance(i, int) else i))), dtype="float", is_nd=False)))

        a["valid_weight"] = lambda k: vsum(k, lambda i: If(valid(i), w[i], 0))
        a["invalid_weight"] = lambda k: vsum(k, lambda i: If(valid(i), 0, w[i]))
        a["valid_mass"] = lambda k: vsum(k, lambda i: If(valid(i), p[i] * w[i], 0))
        a["valid_count"] = lambda k: vsum(k, lambda i: If(valid(i), 1, 0))
        a["all_weight"] = lambda k: vsum(k, lambda i: w[i])

        def invariant(view, k):
            k = V(k)
            mean = V(view.mean_value)
            rej, non = V(view.rejected_weighting_sum), V(view.non_rejected_weighting_sum)
            inv = [rej == a["invalid_weight"](k), non == a["valid_weight"](k), mean == a["valid_mass"](k),
                   rej >= 0, non >= 0, lo * non <= mean, mean <= hi * non,
                   # every weight seen so far went to exactly one of the two sums
                   rej + non == a["all_weight"](k)]
            nv = view.get("N_valid_percentages")
            if nv is not None:
                nv = V(nv)
                inv += [nv == a["valid_count"](k), nv >= 0, Implies(nv == 0, And(non == 0, mean == 0))]
            return unwrap(And(*inv))

        self.loops = {(IU, self.func, 0): LoopSpec(
            modifies=["N_valid_percentages", "mean_value", "rejected_weighting_sum", "non_rejected_weighting_sum"],
            optional=["N_valid_percentages"],
            temporaries=["percentage", "weight", "i"], invariant=invariant, name="averaging_loop")}
        return a

    def ensures(self, S, a, res):
        N = a["N"]
        vw, iw, vm = a["valid_weight"](N), a["invalid_weight"](N), a["valid_mass"](N)
        real = res != SENTINEL
        lo, hi = a["lo"], a["hi"]
        return {
            "impossible_values_contribute_nothing": Implies(real, res * (1 - iw) == vm),
            "within_range_of_valid_inputs_when_weights_sum_to_one": Implies(And(real, a["tot"] == 1), And(res >= lo, res <= hi)),
            "within_range_up_to_admitted_weight_tolerance": Implies(
                real, And(res >= Min(lo * Fraction("0.9999"), lo * Fraction("1.0001")),
                          res <= Max(hi * Fraction("0.9999"), hi * Fraction("1.0001")))),
            # the sentinel is the answer when nothing valid was given - or, within the function's admitted weight
            # tolerance, when the impossible values carry the whole unit weight (valid weight <= 1e-5)
            "sentinel_only_without_valid_weight": Implies(Not(real), Or(vw == 0, iw == 1)),
            # and it IS the answer when no value at all was possible, whatever the weights sum to within the tolerance
            "sentinel_when_nothing_valid": Implies(a["valid_count"](N) == 0, Not(real)),
        }

    def on_raise(self, S, a, exc):
        # the function's own assertion on the renormalised weights may fire (weights summing to 0.999995 with
        # a rejected share close to 1); nothing else may
        return {"only_the_documented_assertion": V(exc.cls_name == "AssertionError")}


class EvenAverage(Contract):
    prop = "C17"
    file = IU
    func = "ImportUtilities.average_percentages"
    name = "even_weights"

    def __init__(self, n):
        self.n = n
        self.name = f"even_weights[{n}]"

    def inputs(self, S):
        n = self.n
        p = S.series("percentages", n, nd=False)
        lo, hi = S.real("lowest_valid"), S.real("highest_valid")
        S.assume(And(*[Implies(And(p[i] <= 100000, p[i] >= -100), And(lo <= p[i], p[i] <= hi)) for i in range(n)]))
        return dict(args=[p], p=p, lo=lo, hi=hi)

    def ensures(self, S, a, res):
        n, p = self.n, a["p"]
        valid = [And(p[i] <= 100000, p[i] >= -100) for i in range(n)]
        cnt = Sum([If(v, 1, 0) for v in valid])
        tot = Sum([If(v, p[i], 0) for i, v in enumerate(valid)])
        return {
            "mean_of_the_valid_values": Implies(cnt > 0, res * cnt == tot),
            "within_range_of_valid_inputs": Implies(cnt > 0, And(res >= a["lo"], res <= a["hi"])),
            "sentinel_when_nothing_valid": Implies(cnt == 0, res == SENTINEL),
        }


class SecondCallAndFrame(Contract):
    """The helpers keep nothing from one call to the next and leave the caller's lists alone: a call with an impossible
    value followed by a call of the same length (resp. with the same weights list) still returns the mean of the valid
    values (literal length 3, values symbolic)."""
    prop = "C17"
    file = IU
    np_floats = False

    def __init__(self, which, nd=False):
        self.which = which
        self.nd = nd
        self.func = "ImportUtilities.average_percentages" if which == "even" else "ImportUtilities.weighted_average_percentages"
        self.name = f"second_call_{which}" + ("_given_numpy_arrays" if nd else "")

    def _seq(self, xs):
        """The caller's sequence: a Python list, or (nd) a numpy float array as average_columns hands them on."""
        from pyvc.values import Arr
        return Arr(len(xs), elems=list(xs), dtype="float", is_nd=True) if self.nd else list(xs)

    def inputs(self, S):
        a, b, c = S.real("a"), S.real("b"), S.real("c")
        S.assume(And(a >= -100, a <= 100000, b >= -100, b <= 100000, c >= -100, c <= 100000))
        big = Fraction(10) ** 11
        self.big = big
        if self.which == "even":
            self.first = self._seq([big, unwrap(a), unwrap(b)])
            calls = [dict(func=self.func, args=[self.first]), dict(func=self.func, args=[self._seq([unwrap(c), big, big])])]
            return dict(calls=calls, a=a, b=b, c=c)
        w = self._seq([Fraction(1, 4), Fraction(1, 2), Fraction(1, 4)])
        self.w = w
        self.first = self._seq([unwrap(a), big, unwrap(b)])
        calls = [dict(func=self.func, args=[self.first, w]), dict(func=self.func, args=[self._seq([unwrap(a), unwrap(c), unwrap(b)]), w])]
        return dict(calls=calls, a=a, b=b, c=c)

    def _same(self, seq, expected):
        got = seq if isinstance(seq, list) else [seq.get(k) for k in range(len(expected))]
        return And(*[V(g) == V(e) for g, e in zip(got, expected)]) if len(got) == len(expected) else V(False)

    def ensures(self, S, p, res):
        r1, r2 = res[0], res[1]
        a, b, c = p["a"], p["b"], p["c"]
        if self.which == "even":
            return {"first_call_is_the_mean_of_its_valid_values": r1 * 2 == a + b,
                    "second_call_is_not_affected_by_the_first": r2 == c,
                    "callers_values_left_as_they_were": self._same(self.first, [self.big, unwrap(a), unwrap(b)])}
        return {"first_call_is_the_weighted_mean_of_its_valid_values": r1 * Fraction(1, 2) == a * Fraction(1, 4) + b * Fraction(1, 4),
                "second_call_is_not_affected_by_the_first": r2 == a * Fraction(1, 4) + c * Fraction(1, 2) + b * Fraction(1, 4),
                "callers_weights_left_as_they_were": self._same(self.w, [Fraction(1, 4), Fraction(1, 2), Fraction(1, 4)]),
                "callers_values_left_as_they_were": self._same(self.first, [unwrap(a), self.big, unwrap(b)])}


# ---- ground obligations on the shipped combined table ------------------------------------------------------

FRACTION_COLS = ["distribution_loss_crops", "distribution_loss_sugar", "distribution_loss_meat", "distribution_loss_dairy",
                 "distribution_loss_seafood", "retail_waste_baseline", "retail_waste_price_double", "retail_waste_price_triple",
                 "fraction_crop_area", "max_area_fraction", "new_area_fraction", "initial_built_fraction",
                 "initial_seaweed_fraction", "power_law_improvement"]
QUANTITY_COLS = ["population", "aq_kcals", "aq_fat", "aq_protein", "grasses_baseline", "dairy", "chicken", "pork", "beef",
                 "small_animals", "medium_animals", "large_animals", "dairy_cows", "biofuel_kcals", "biofuel_fat",
                 "biofuel_protein", "feed_kcals", "feed_fat", "feed_protein", "crop_kcals", "crop_fat", "crop_protein",
                 "wood_pulp_tonnes", "crop_area_1000ha", "milk_yield_kg_per_milk_bearing_animal_per_year", "kg_meat_per_pig",
                 "kg_meat_per_chicken", "percent_of_global_production", "capex_dollar", "percent_of_global_capex"] + \
                [f"stocks_kcals_{m}" for m in ("jan", "feb", "mar", "apr", "may", "jun", "jul", "aug", "sep", "oct", "nov", "dec")]


def table_rows(repo):
    path = os.path.join(repo, "data/no_food_trade/computer_readable_combined.csv")
    with open(path, newline="") as f:
        return list(csv.DictReader(f))


def expected_countries(repo):
    """The country set the import pipeline joins on: ImportUtilities.country_codes, read from the source."""
    import ast
    src = open(os.path.join(repo, IU)).read()
    tree = ast.parse(src)
    env = {}
    for cls in [n for n in tree.body if isinstance(n, ast.ClassDef) and n.name == "ImportUtilities"]:
        for st in cls.body:
            if isinstance(st, ast.Assign) and isinstance(st.targets[0], ast.Name):
                try:
                    env[st.targets[0].id] = eval(compile(ast.Expression(st.value), "iu", "eval"), {}, env)
                except Exception:
                    pass
    return env.get("country_codes")


def ground_table(repo, tier, seed):
    t0 = time.time()
    rows = table_rows(repo)
    out = []

    def ob(name, ok, detail=""):
        out.append({"name": f"C17/combined_table/{name}", "kind": "ground", "status": "discharged" if ok else "failed",
                    "backend": "evaluation", "seconds": 0, "detail": detail, "goal": name, "replay_verdict": None if ok else "violation",
                    "replay": None if ok else {"verdict": "violates-natively", "detail": detail}})

    codes = [r["iso3"] for r in rows]
    exp = expected_countries(repo)
    ob("one_row_per_country_no_duplicates", len(set(codes)) == len(codes), f"{len(codes)} rows")
    if exp is not None:
        # import_food_data.py: expected codes are ImportUtilities.country_codes with Eswatini's code SWZ -> SWT
        exp = {c.replace("SWZ", "SWT") for c in exp}
        ob("rows_are_exactly_the_expected_countries", set(codes) == exp,
           f"unexpected: {sorted(set(codes) - exp)[:5]} missing: {sorted(exp - set(codes))[:5]}")
    ob("table_has_164_rows_211_columns", len(rows) == 164 and all(len(r) == 211 for r in rows), f"{len(rows)} x {len(rows[0])}")
    bad_missing, bad_season, bad_frac, bad_red, bad_q = [], [], [], [], []
    for r in rows:
        for k, v in r.items():
            if v is None or v.strip() == "" or v.strip().lower() in ("nan", "none", "null"):
                bad_missing.append((r["iso3"], k))
        def num(k):
            return float(r[k])
        try:
            s = sum(num(f"seasonality_m{i}") for i in range(1, 13))
            if abs(s - 1) > 1e-8 or any(num(f"seasonality_m{i}") < 0 for i in range(1, 13)):
                bad_season.append((r["iso3"], s))
            for k in FRACTION_COLS:
                if not (0 <= num(k) <= 1):
                    bad_frac.append((r["iso3"], k, r[k]))
            for y in range(1, 11):
                for fam in ("crop_reduction_year", "grasses_reduction_year"):
                    if num(f"{fam}{y}") < -1 - 1e-8:
                        bad_red.append((r["iso3"], f"{fam}{y}", r[f"{fam}{y}"]))
            for k in QUANTITY_COLS:
                if num(k) < 0 or math.isnan(num(k)) or math.isinf(num(k)):
                    bad_q.append((r["iso3"], k, r[k]))
            for k in r:
                if k.startswith("seaweed_growth_per_day_") and (math.isnan(num(k)) or num(k) < 0):
                    bad_q.append((r["iso3"], k, r[k]))
        except ValueError as e:
            bad_missing.append((r["iso3"], str(e)))
    ob("no_missing_values", not bad_missing, str(bad_missing[:5]))
    ob("seasonality_sums_to_one", not bad_season, str(bad_season[:5]))
    ob("fractions_within_0_1", not bad_frac, str(bad_frac[:5]))
    ob("reductions_not_below_minus_100_percent", not bad_red, str(bad_red[:5]))
    ob("quantities_non_negative_and_finite", not bad_q, str(bad_q[:5]))
    out[-1]["seconds"] = round(time.time() - t0, 2)
    return out


def ground_verify_country_data(repo, tier, seed):
    """The repository's own row validator, executed from source by the interpreter on each shipped row."""
    import sys
    from pyvc.interp import Interp, Ctx, PyExc
    t0 = time.time()
    rows = table_rows(repo)
    I = Interp(repo)
    failures = []
    n = 0
    for r in rows:
        ctx = Ctx(I, [])
        I.new_path(ctx)
        fn = I.load_function(RM, "ScenarioRunnerNoTrade.verify_country_data")
        row = {}
        for k, v in r.items():
            try:
                row[k] = Fraction(float(v)) if k not in ("iso3", "country") else v
            except ValueError:
                row[k] = v
        selfo = __import__("pyvc.values", fromlist=["Obj"]).Obj(I.load_function(RM, "ScenarioRunnerNoTrade"))
        try:
            I.call(fn, [selfo, row], {})
            n += 1
        except PyExc as e:
            failures.append((r["iso3"], repr(e.exc)[:200]))
    ok = not failures
    return [{"name": "C17/combined_table/verify_country_data_accepts_every_row", "kind": "ground",
             "status": "discharged" if ok else "failed", "backend": "pyvc interpreter (concrete)", "seconds": round(time.time() - t0, 2),
             "detail": f"{n} rows accepted; {failures[:3]}", "goal": "forall rows. verify_country_data(row) returns",
             "replay_verdict": None if ok else "violation",
             "replay": None if ok else {"verdict": "violates-natively", "detail": str(failures[:5])}}]


CONTRACTS = [WeightedAverage()] + [EvenAverage(n) for n in (1, 2, 3, 5)] + \
    [SecondCallAndFrame(w, nd) for nd in (False, True) for w in ("even", "weighted")]
def non_finite_values_bounded(repo, tier, seed):
    """BOUNDED stand-in, not a proof: the contracts above treat floats as reals, where an infinite 'impossible' value does
    not exist.  The real helpers are therefore RUN (CPython, /venv) on a fixed list of inputs containing +inf / -inf among
    valid values; the answer must be the (weighted) mean of the valid ones.  Labelled bounded, never counted as proved."""
    import json, subprocess, time
    t0 = time.time()
    script = r"""
import json, sys, math
sys.path.insert(0, sys.argv[1])
from src.utilities.import_utilities import ImportUtilities as U
inf = float('inf')
cases = [
  ("average_percentages", [[inf, 50.0, 70.0]], 60.0),
  ("average_percentages", [[-inf, 50.0, 70.0]], 60.0),
  ("average_percentages", [[10.0, inf, -inf, 30.0]], 20.0),
  ("weighted_average_percentages", [[inf, 50.0, 80.0], [0.5, 0.25, 0.25]], 65.0),
  ("weighted_average_percentages", [[40.0, -inf, 80.0], [0.25, 0.5, 0.25]], 60.0),
  ("weighted_average_percentages", [[40.0, inf, 80.0], [0.5, 0.0, 0.5]], 60.0),
]
out = []
for name, args, want in cases:
    try:
        got = getattr(U, name)(*args)
        ok = isinstance(got, float) and not math.isnan(got) and abs(got - want) <= 1e-9 * max(1.0, abs(want))
        out.append([name, repr(args), repr(got), want, bool(ok)])
    except Exception as e:
        out.append([name, repr(args), type(e).__name__ + ': ' + str(e), want, False])
print(json.dumps(out))
"""
    try:
        r = subprocess.run(["/venv/bin/python", "-c", script, repo], cwd=repo, capture_output=True, text=True, timeout=120)
        rows = json.loads(r.stdout.strip().splitlines()[-1])
        bad = [x for x in rows if not x[4]]
        ok, detail = not bad, f"{len(rows)} inputs run natively; wrong: {bad[:3]}"
        status = "discharged" if ok else "failed"
    except Exception as e:
        ok, status, detail = False, "error", f"{type(e).__name__}: {e}"
    return [{"name": "C17/bounded/non_finite_impossible_values_are_ignored", "kind": "bounded", "bounded": True, "status": status, "backend": "CPython (native run)",
             "seconds": round(time.time() - t0, 2), "detail": detail, "goal": "+-inf among valid values: the answer is the mean of the valid ones (6 fixed inputs)",
             "replay_verdict": None if ok else "violation", "replay": None if ok else {"verdict": "violates-natively", "detail": detail}}]


EXTRA = [ground_table, ground_verify_country_data, non_finite_values_bounded]
TRUSTED = [
    "machine floats treated as mathematical reals (sentinel 9.37e36 exact)",
    "induction schema behind prefix sums; CSV cells parsed with float()",
    "average_percentages (even weights) checked for literal lengths 1,2,3,5; weighted_average_percentages for any length",
]
NOT_DECIDED = ["re-running the 21 import scripts reproduces every processed table exactly (regeneration over pandas/openpyxl: "
               "not expressible as a function contract; not checked)"]
ASSUMPTIONS = list(TRUSTED)
MIN_OBLIGATIONS = 15
