"""C03 - humans come before animal feed and biofuel.

Decided here: the third sentence of the statement - in every round and month the feed and biofuel drawn from
human-edible food never exceed the scenario's demand schedule, and are zero from the shut-off month onwards - as a
chain of contracts:
  (1) the demand schedules are baseline-until-shut-off-then-zero (C08's FeedAndBiofuels contracts, re-stated here);
  (2) the LP builders bound each month's feed / biofuel by the round's ceiling or pin it to the round's charge (C01's
      feed_biofuel templates);
  (3) the charges of the final round are the herds' feed use (<= offered, C07) only increased up to demand
      (Parameters.increase_biofuels_then_feed, C18) - re-stated here with the caps as the property needs them;
  (4) after EVERY round run_and_analyze_scenario calls Validator.assert_feed_used_below_feed_demand /
      assert_biofuels_used_below_biofuels_demand with the schedule of (1): proved here, for every horizon, that these
      return normally only if  used(m) x (1 - 1e-4) <= demand(m) + 1e-6  in every month - so no completed run reports
      more (structural obligation: the three call pairs are there, on the first round's schedules).
NOT decided (see NOT_DECIDED): the first two sentences (what the three solves achieve relative to the minimum share).
"""
import ast
import os
import time
from fractions import Fraction
import z3
from pyvc.vc import Contract
from pyvc.spec import V, And, Or, Not, Implies, If, Abs, Min, Max, Sum, unwrap
from pyvc.values import Arr, Sym, Obj

VR = "src/optimizer/validate_results.py"
RS = "src/scenarios/run_scenario.py"
PA = "src/optimizer/parameters.py"
FB = "src/food_system/feed_and_biofuels.py"
IR = "src/optimizer/interpret_results.py"
SOURCES = ["cell_sugar", "scp", "seaweed", "outdoor_crops", "stored_food"]
PCT = "percent people fed each month"


class UsedBelowDemand(Contract):
    prop = "C03"
    file = VR
    np_floats = True
    replayable = False
    raises = "allowed"

    def __init__(self, kind):
        self.kind = kind
        self.func = "Validator.assert_feed_used_below_feed_demand" if kind == "feed" else "Validator.assert_biofuels_used_below_biofuels_demand"
        self.name = f"{kind}: a run that passes the check used no more than the demand schedule"

    def inputs(self, S):
        pop = S.real("population")
        S.assume(pop > 0)
        conv = S.set_conversions(V(Fraction(2100)), V(Fraction(47)), V(Fraction(51)), False, False, pop)
        n = S.int("N")
        S.assume(n >= 1)
        suffix = "_feed" if self.kind == "feed" else "_biofuels"
        attrs, series = {"include_fat": False, "include_protein": False}, {}
        zeros = lambda: V(Arr(unwrap(n), fn=lambda i: Fraction(0), dtype="float"))
        for s_ in SOURCES:
            series[s_] = S.series("used_" + s_, n)
            S.forall(n, lambda i, x=series[s_]: x[i] >= 0)
            attrs[s_ + suffix] = unwrap(S.food(series[s_], zeros(), zeros(), PCT, PCT, PCT))
        ir = S.obj(IR, "Interpreter", **attrs)
        demand = S.series("demand", n)
        S.forall(n, lambda i: demand[i] >= 0)
        d = S.food(demand, zeros(), zeros(), "billion kcals each month", "thousand tons each month", "thousand tons each month")
        return dict(args=[d, ir, 3], series=series, demand=demand, n=n, conv=conv)

    def ensures(self, S, a, res):
        i = S.idx("i", a["n"])
        bkn = a["conv"].billion_kcals_needed
        used = Sum([a["series"][s_][i] for s_ in SOURCES]) * bkn / 100
        return {"every_month_within_the_schedule_up_to_the_checks_tolerance": used * (1 - Fraction(1, 10 ** 4)) <= a["demand"][i] + Fraction(1, 10 ** 6)}

    def on_raise(self, S, a, exc):
        return {"only_an_assertion_error_can_leave_the_check": V(exc.cls_name == "AssertionError")}


class UsedAboveDemandIsRejected(Contract):
    """Vacuity guard of the contract above, and the other direction: a month that uses clearly more than the schedule
    makes the check raise."""
    prop = "C03"
    file = VR
    np_floats = True
    replayable = False
    raises = "allowed"

    def __init__(self, kind):
        self.kind = kind
        self.func = "Validator.assert_feed_used_below_feed_demand" if kind == "feed" else "Validator.assert_biofuels_used_below_biofuels_demand"
        self.name = f"{kind}: a month clearly above the schedule is rejected"

    def inputs(self, S):
        pop = S.real("population")
        S.assume(pop > 0)
        conv = S.set_conversions(V(Fraction(2100)), V(Fraction(47)), V(Fraction(51)), False, False, pop)
        n = 3
        suffix = "_feed" if self.kind == "feed" else "_biofuels"
        attrs, series = {"include_fat": False, "include_protein": False}, {}
        zeros = lambda: V(Arr(n, elems=[Fraction(0)] * n, dtype="float"))
        for s_ in SOURCES:
            series[s_] = S.series("used_" + s_, n)
            S.forall(n, lambda i, x=series[s_]: x[i] >= 0)
            attrs[s_ + suffix] = unwrap(S.food(series[s_], zeros(), zeros(), PCT, PCT, PCT))
        demand = S.series("demand", n)
        S.forall(n, lambda i: demand[i] >= 0)
        bkn = conv.billion_kcals_needed
        used1 = Sum([series[s_][1] for s_ in SOURCES]) * bkn / 100
        S.assume(used1 * (1 - Fraction(1, 10 ** 4)) > demand[1] + Fraction(1, 10 ** 5))
        ir = S.obj(IR, "Interpreter", **attrs)
        d = S.food(demand, zeros(), zeros(), "billion kcals each month", "thousand tons each month", "thousand tons each month")
        return dict(args=[d, ir, 3])

    def ensures(self, S, a, res):
        return {"excess_use_is_rejected": V(False)}

    def on_raise(self, S, a, exc):
        return {"excess_use_is_rejected": V(exc.cls_name == "AssertionError")}


class FinalRoundChargesWithinDemand(Contract):
    """Parameters.increase_biofuels_then_feed with the property's caps: starting from charges within the schedules, the
    charges of the final round stay within them, month by month, and are zero wherever the schedule is zero."""
    prop = "C03"
    file = PA
    func = "Parameters.increase_biofuels_then_feed"
    name = "final round charges stay within the schedules"
    np_floats = True

    def inputs(self, S):
        n = S.int("N")
        S.assume(n >= 1)
        a = {k: S.series(k, n) for k in ("biofuel", "feed", "increase", "biofuel_demand", "feed_demand", "crops")}
        S.forall(n, lambda i: And(a["biofuel"][i] >= 0, a["feed"][i] >= 0, a["increase"][i] >= 0, a["crops"][i] >= 0,
                                  a["biofuel"][i] <= a["biofuel_demand"][i], a["feed"][i] <= a["feed_demand"][i]))
        a["n"] = n
        a["args"] = [S.obj(PA, "Parameters"), a["biofuel"], a["feed"], a["increase"], a["biofuel_demand"], a["feed_demand"], a["crops"]]
        return a

    def ensures(self, S, a, res):
        i = S.idx("i", a["n"])
        nb, nf = res[0], res[1]
        return {"within_the_demand_schedule": And(nb[i] <= a["biofuel_demand"][i], nf[i] <= a["feed_demand"][i], nb[i] >= 0, nf[i] >= 0),
                "zero_from_the_shut_off_month_onwards": And(Implies(a["biofuel_demand"][i] == 0, nb[i] == 0), Implies(a["feed_demand"][i] == 0, nf[i] == 0))}


class FinalRoundCompensation(Contract):
    """Mechanism behind sentence 2 (NOT the sentence itself, which is not decided): in compute_parameters_third_round
    the amount by which the final round's biofuel / feed charge may be raised is half the extra meat THE FINAL ROUND'S
    OWN HERDS deliver over the no-feed round, less 20 kcal per person per day, never negative - i.e. the charge is
    never raised on the strength of meat the final round does not have.  The herd simulation, the conversion of its
    results and increase_biofuels_then_feed enter through summaries (their own contracts: C06 / C05 / above); the
    summary of the latter records the `increase` it is called with."""
    prop = "C03"
    file = PA
    func = "Parameters.compute_parameters_third_round"
    np_floats = True
    merge = True
    replayable = False

    def __init__(self, add_meat=True):
        self.add_meat = add_meat
        self.name = ("final round charge is raised by no more than half of its own extra meat" if add_meat else
                     "final round charge is not raised at all when culled meat is not eaten")

    def inputs(self, S):
        pop = S.real("population")
        S.assume(pop > 0)
        conv = S.set_conversions(V(Fraction(2100)), V(Fraction(47)), V(Fraction(51)), False, False, pop)
        n = S.int("N")
        S.assume(n >= 1)
        zeros = lambda: V(Arr(unwrap(n), fn=lambda i: Fraction(0), dtype="float"))
        BK = ("billion kcals each month", "thousand tons each month", "thousand tons each month")
        KC = ("kcals per person per day each month", "effective kcals per person per day each month", "effective kcals per person per day each month")
        ser = {k: S.series(k, n) for k in ("meat1", "meat2", "meat3", "feed2", "biofuel2", "imm1", "new1", "stored1", "feed_demand",
                                           "biofuel_demand", "feed_used3")}
        S.forall(n, lambda i: And(*[x[i] >= 0 for x in ser.values()]))
        food = lambda k, units=BK: unwrap(S.food(ser[k], zeros(), zeros(), *units))
        tc1 = {"each_month_meat_slaughtered": food("meat1")}
        tc2 = {"each_month_meat_slaughtered": food("meat2")}
        ir1 = S.obj(IR, "Interpreter", immediate_outdoor_crops_kcals_equivalent=food("imm1", KC), new_stored_outdoor_crops_kcals_equivalent=food("new1", KC),
                    stored_food_kcals_equivalent=food("stored1", KC))
        ir2 = S.obj(IR, "Interpreter", biofuels_sum_kcals_equivalent=food("biofuel2", KC), feed_sum_kcals_equivalent=food("feed2", KC))
        fb = S.obj(FB, "FeedAndBiofuels")
        ci = S.opendict("constants_inputs", {"COUNTRY_CODE": "XXX", "BREEDING_STRATEGY": "reduce_breeding", "ADD_MEAT": self.add_meat}, closed=True)
        captured = {}
        meat3 = food("meat3")
        feed_used3 = food("feed_used3")

        def herd_sim(interp, ctx, fv, args, kwargs):
            return None  # CalculateFeedAndMeat.__init__: the simulated herds enter through `convert` below

        def convert(interp, ctx, fv, args, kwargs):
            t3 = args[6] if len(args) > 6 else kwargs["time_consts"]
            t3["each_month_meat_slaughtered"] = meat3
            return (feed_used3, {}, t3, args[5] if len(args) > 5 else kwargs["constants_out"])

        def bump(interp, ctx, fv, args, kwargs):
            captured["increase"] = args[3]
            captured["biofuel"], captured["feed"] = args[1], args[2]
            return (args[1], args[2])

        def md(interp, ctx, fv, args, kwargs):
            args[0].attrs.update(human_inedible_feed=None, kcals_per_head_meat_dict={})  # MeatAndDairy.__init__
            return None

        self.summaries = {("src/food_system/animal_populations.py", "CalculateFeedAndMeat.__init__"): herd_sim,
                          (PA, "Parameters.init_meat_and_dairy_and_feed_from_breeding"): convert,
                          (PA, "Parameters.increase_biofuels_then_feed"): bump,
                          ("src/food_system/meat_and_dairy.py", "MeatAndDairy.__init__"): md,
                          ("src/food_system/meat_and_dairy.py", "MeatAndDairy.initialize_this_country_animal_kcals"): lambda *a, **k: None}
        args = [S.obj(PA, "Parameters"), ci, {}, {}, tc1, tc2, ir1, ir2, fb, food("feed_demand"), food("biofuel_demand"),
                S.obj("src/food_system/animal_populations.py", "CalculateFeedAndMeat")]
        return dict(args=args, ser=ser, n=n, conv=conv, captured=captured)

    def ensures(self, S, a, res):
        i = S.idx("i", a["n"])
        ser, conv, cap = a["ser"], a["conv"], a["captured"]
        if not self.add_meat:
            # nothing to offset: people do not eat the extra meat (cull = dont_eat_culled), so the charge must stay what
            # the final round's herds used (natively: BLR / MDA / THA, present-day climate, continued feed - the
            # no-feed round reaches 171 / 290 / 163 % and the final result fell to 94 / 87 / 96 % before the fix)
            tc3 = unwrap(res)[1]
            unchanged = V(tc3["feed"]).kcals[i] == ser["feed_used3"][i]
            return {"no_compensation_without_meat_consumption": And(V("increase" not in cap), unchanged)}
        if "increase" not in cap:
            return {"compensation_is_half_the_final_rounds_own_extra_meat_less_20_kcal": V(False)}
        # billion kcals per month <-> kcals per person per day:  x * kcals_daily * 1e9 / (kcals_monthly * population)
        per_person = conv.kcals_daily * 10 ** 9 / (conv.kcals_monthly * conv.population)
        half_extra = (ser["meat3"][i] - ser["meat1"][i]) / 2
        want = Max(0, half_extra * per_person - 20) / per_person
        got = V(cap["increase"])[i]
        return {"compensation_is_half_the_final_rounds_own_extra_meat_less_20_kcal": got == want,
                "compensation_never_counts_meat_the_final_round_does_not_have": got <= Max(0, half_extra),
                "final_round_feed_starts_from_what_its_herds_used": V(cap["feed"])[i] == ser["feed_used3"][i]}


def _c08_schedules():
    from contracts import C08
    out = []
    for c in C08.CONTRACTS:
        if c.file == FB and c.func in ("FeedAndBiofuels.get_feed_usage", "FeedAndBiofuels.get_biofuel_usage",
                                       "FeedAndBiofuels.get_biofuels_and_feed_from_delayed_shutoff"):
            sub = type("Schedule_" + type(c).__name__, (type(c),), {"prop": "C03"})
            o = sub.__new__(sub)
            o.__dict__.update(c.__dict__)
            out.append(o)
    return out


def checks_after_every_round(repo, tier, seed):
    """Both run-time checks (use <= schedule, month by month) are made after each of the three rounds, against the
    schedules the first round computed; the final round's checks are unconditional.  Decided on the syntax tree of
    run_and_analyze_scenario with private helpers spliced in and call arguments resolved by name, so neither the
    spelling of a call (positional / keyword) nor a moved straight-line block matters."""
    from contracts import astscan
    t0 = time.time()
    tree = ast.parse(open(os.path.join(repo, RS)).read())
    methods = astscan.class_methods(tree, "ScenarioRunner")
    fn = astscan.flat_function(methods, methods["run_and_analyze_scenario"])
    vtree = ast.parse(open(os.path.join(repo, "src/optimizer/validate_results.py")).read())
    vmethods = astscan.class_methods(vtree, "Validator")
    names = ("assert_feed_used_below_feed_demand", "assert_biofuels_used_below_biofuels_demand")

    def checks(node):
        got = []
        for n in ast.walk(node):
            if isinstance(n, ast.Call) and isinstance(n.func, ast.Attribute) and n.func.attr in names and n.func.attr in vmethods:
                b = astscan.bound_args(n, astscan.params_of(vmethods[n.func.attr]))
                got.append((n.func.attr, b.get(astscan.params_of(vmethods[n.func.attr])[0]), b.get("interpreted_results"), b.get("round")))
        return got

    allc = checks(fn)
    want = {(names[0], "feed_demand", f"interpreted_results_round{r}", str(r)) for r in (1, 2, 3)} | \
           {(names[1], "biofuels_demand", f"interpreted_results_round{r}", str(r)) for r in (1, 2, 3)}
    # the schedules checked against are assigned once (from the first-round parameter computation) and never again
    stores = [n for n in ast.walk(fn) if isinstance(n, ast.Name) and isinstance(n.ctx, ast.Store) and n.id in ("feed_demand", "biofuels_demand")]
    from_first = any(isinstance(st, ast.Assign) and "compute_parameters_first_round(" in ast.unparse(st.value)
                     and {"feed_demand", "biofuels_demand"} <= {n.id for n in ast.walk(st.targets[0]) if isinstance(n, ast.Name)}
                     for st in ast.walk(fn) if isinstance(st, ast.Assign))
    # round 3's checks are unconditional: top-level statements of the (flattened) body
    top = [c for st in fn.body if isinstance(st, ast.Expr) for c in checks(st)]
    r3_uncond = {c for c in top if c[3] == "3"} == {c for c in want if c[3] == "3"}
    ok = set(allc) == want and len(stores) == 2 and from_first and r3_uncond
    detail = f"checks {sorted(allc)}; schedules assigned {len(stores)} time(s) in all, from the first round: {from_first}; final-round checks unconditional: {r3_uncond}"
    out = [{"name": "C03/rounds/use_is_checked_against_the_schedule_after_every_round", "kind": "structural", "status": "discharged" if ok else "failed",
            "backend": "ast", "seconds": round(time.time() - t0, 3), "detail": detail[:900], "goal": "both checks after rounds 1, 2, 3 on the first round's schedules",
            "replay_verdict": None if ok else "violation", "replay": None if ok else {"verdict": "violates-natively", "detail": detail}}]
    return out


def _c05_first_round():
    """The schedules the checks compare against are the scenario's delayed-shutoff schedules, handed on unchanged by
    the first round: C05's wiring contract of that function, re-run under this property."""
    from contracts import C05
    from contracts.common import relabelled
    return relabelled([c for c in C05.CONTRACTS if type(c).__name__ == "FirstRoundHerds"], "C03")


def lp_ceilings(repo, tier, seed):
    """C01's feed / biofuel template obligations, re-run under this property's name: in the feed round every month's
    feed and biofuel are <= the round's ceiling; in the human rounds they equal the round's charge."""
    from contracts import C01
    out = []
    for o in C01.ledger_obligations(repo, tier, seed):
        if "/feed_biofuel[" in o["name"]:
            o = dict(o)
            o["name"] = o["name"].replace("C01/", "C03/lp/")
            out.append(o)
    return out


CONTRACTS = [UsedBelowDemand("feed"), UsedBelowDemand("biofuel"), UsedAboveDemandIsRejected("feed"), UsedAboveDemandIsRejected("biofuel"),
             FinalRoundChargesWithinDemand(), FinalRoundCompensation(True), FinalRoundCompensation(False)] + _c08_schedules()
def _c18_min_needs():
    from contracts import C18
    from contracts.common import relabelled
    return relabelled([c for c in C18.CONTRACTS if type(c).__name__ == "MinNeeds"], "C03")


# mechanism of sentence 1 (not the sentence): before anything may go to feed / biofuel in the feed round, humans are
# reserved min(no-feed result, minimum share) of their need, filled in the documented priority order - C18's contract
CONTRACTS += _c18_min_needs()
CONTRACTS += _c05_first_round()


def _c13_minimum_share():
    """'the configured minimum share': the numeric override reaches the constants under every shut-off schedule (also the
    two whose own default is 10 %) - C13's override contracts for that key, re-run under this property."""
    from contracts import C13
    from contracts.common import relabelled
    return relabelled([c for c in C13.CONTRACTS if type(c).__name__ == "Override"
                       and c.key == "MINIMUM_PERCENT_FED_BEFORE_NONHUMAN_CONSUMPTION_ALLOWED"], "C03")


CONTRACTS += _c13_minimum_share()
def pinned_human_consumption(repo, tier, seed):
    """Mechanism of sentence 1: in the feed round what people were reserved is PINNED (within 1e-5, 1e-4 below ten
    million people) - C02's lemma group, re-run under this property (a looser band hands human food to the animals)."""
    from contracts import C02
    out = []
    for o in C02.pinned_consumption(repo, tier, seed):
        o = dict(o)
        o["name"] = o["name"].replace("C02/", "C03/lp/")
        out.append(o)
    return out


EXTRA = [checks_after_every_round, lp_ceilings, pinned_human_consumption]
TRUSTED = [
    "machine floats treated as mathematical reals; the run-time checks' own tolerances (1e-4 relative, 1e-6 absolute) are part of what is proved",
    "nutrition settings literal in the validator contracts (2100 / 47 / 51), population symbolic; fat / protein not counted (the shipped profiles): with them counted the validators return at once and nothing is enforced",
    "the validators see what the Interpreter reports (C04); the ceilings / charges the LP enforces are C01's templates; herds eat at most what is offered (C07)",
    "where the checks are called is a syntactic obligation over run_and_analyze_scenario",
]
NOT_DECIDED = [
    "sentence 1 and 2 of the statement (final percent fed vs the minimum share and vs the no-feed round; 'essentially no' human-edible food to feed / biofuel when below the share): outcomes of three chained CBC solves and of a rule-of-thumb compensation (meat increase / 2 - 20 kcal) - no contract within reach expresses them; Validator.assert_round3_percent_fed_not_lower_than_round1 only PRINTS (its assert sits inside a printed f-string), so no run-time guard exists either",
]
ASSUMPTIONS = list(TRUSTED)
MIN_OBLIGATIONS = 12
LEVEL = "proof"
