"""C14 - a run's result depends only on its own inputs.

Decided as a frame / initialise-before-use argument (the part of the question contracts can express):
 (1) INVENTORY  - an AST effect scan over src/ computes every location that outlives a call and is written on some
     path: class attributes, module globals, mutable default arguments, module-level mutable objects.  Obligation:
     that set is exactly {Food.conversions} (the class-level unit-conversion settings).
 (2) RE-ESTABLISHED FROM THIS RUN'S ARGUMENTS ONLY - UnitConversions.set_nutrition_requirements assigns every field
     of that object as a function of its arguments: two objects with DIFFERENT arbitrary previous contents end with
     identical fields (relational contract), and the field set is closed.
 (3) INITIALISED BEFORE READ - in Parameters.compute_parameters_first_round (the first thing run_and_analyze_scenario
     does) the call that re-establishes the settings dominates the first read of any conversion field: executed with a
     POISONED class object (no field readable) and every later initialiser replaced by a summary that reads all
     fields - a read before the write ends the path in an exception.
 (4) Caller-owned inputs (option dictionary, country row) are not written: C13's frame obligations.
From (1)-(4) the result is a function of the arguments and the read-only data files, for every history.
"""
import ast
import os
import time
from pyvc.vc import Contract
from pyvc.spec import V, And, Or, Not, Implies, unwrap
from pyvc.values import Obj, Sym, Arr

UC = "src/food_system/unit_conversions.py"
FOOD = "src/food_system/food.py"
PARAMS = "src/optimizer/parameters.py"
RS = "src/scenarios/run_scenario.py"

FIELDS = ["days_in_month", "include_fat", "include_protein", "exclude_fat", "exclude_protein", "kcals_daily", "fat_daily",
          "protein_daily", "kcals_monthly", "fat_monthly", "protein_monthly", "billion_kcals_needed", "thou_tons_fat_needed",
          "thou_tons_protein_needed", "population", "NUTRITION_PROPERTIES_ASSIGNED"]


class Reestablished(Contract):
    """Whatever an earlier run left in the shared settings object, after set_nutrition_requirements(args) every
    field is determined by args alone."""
    prop = "C14"
    file = UC
    func = "UnitConversions.set_nutrition_requirements"
    name = "previous_contents_irrelevant"

    def inputs(self, S):
        objs = []
        for tag in ("a", "b"):
            attrs = {}
            for f in FIELDS:
                if f in ("include_fat", "include_protein", "exclude_fat", "exclude_protein", "NUTRITION_PROPERTIES_ASSIGNED"):
                    attrs[f] = unwrap(S.bool(f"old_{tag}_{f}"))
                else:
                    attrs[f] = unwrap(S.real(f"old_{tag}_{f}"))
            attrs["leftover_from_an_earlier_run"] = unwrap(S.real(f"old_{tag}_extra")) if tag == "a" else None
            if attrs["leftover_from_an_earlier_run"] is None:
                del attrs["leftover_from_an_earlier_run"]
            objs.append(S.obj(UC, "UnitConversions", **attrs))
        args = [S.real("kcals_daily"), S.real("fat_daily"), S.real("protein_daily"), S.bool("include_fat"), S.bool("include_protein"),
                S.real("population")]
        calls = [dict(func=self.func, args=[objs[0]] + args), dict(func=self.func, args=[objs[1]] + args)]
        return dict(calls=calls, objs=objs)

    def ensures(self, S, a, res):
        import ast as _ast
        o1, o2 = unwrap(a["objs"][0]).attrs, unwrap(a["objs"][1]).attrs
        same = []
        for f in FIELDS:
            if f not in o1 or f not in o2:
                same.append(V(False))
            else:
                same.append(V(S.I.truth(S.I.compare(_ast.Eq(), o1[f], o2[f]))))
        return {"every_field_is_a_function_of_this_runs_arguments": And(*same),
                "no_field_outside_the_documented_set_is_written": V(set(o2.keys()) == set(FIELDS)),
                "settings_marked_assigned": V(o1["NUTRITION_PROPERTIES_ASSIGNED"] is True)}


_CLOSURE = {}


def reads_settings(repo, qualname):
    """Does the callee (transitively, over a name-based call graph of src/ - an over-approximation) read the shared
    conversion settings?  Reading = constructing a Food (its validation reads include_fat/include_protein), touching
    `.conversions`, or using a unit-conversion method."""
    key = (repo, qualname)
    if key in _CLOSURE:
        return _CLOSURE[key]
    trees = _scan_trees(repo)
    defs, class_inits = {}, {}
    for rel, tree in trees.items():
        for c in ast.walk(tree):
            if isinstance(c, ast.ClassDef):
                for n in c.body:
                    if isinstance(n, ast.FunctionDef):
                        defs.setdefault(n.name, []).append(n)
                        if n.name == "__init__":
                            class_inits[c.name] = n
        for n in tree.body:
            if isinstance(n, ast.FunctionDef):
                defs.setdefault(n.name, []).append(n)
    start = qualname.split(".")[-1]
    seen, work, hit = set(), list(defs.get(start, [])), None
    while work and hit is None:
        fn = work.pop()
        if id(fn) in seen:
            continue
        seen.add(id(fn))
        for n in ast.walk(fn):
            if isinstance(n, ast.Attribute) and (n.attr in ("conversions", "get_conversions") or n.attr.startswith("in_units_")):
                hit = f"{fn.name}: .{n.attr}"
                break
            if isinstance(n, ast.Call):
                f = n.func
                name = f.id if isinstance(f, ast.Name) else (f.attr if isinstance(f, ast.Attribute) else None)
                if name == "Food":
                    hit = f"{fn.name}: Food(...)"
                    break
                if name in class_inits:
                    work.append(class_inits[name])
                work.extend(defs.get(name, []))
    _CLOSURE[key] = hit
    return hit


def _reader(n_out, qualname):
    def summ(interp, ctx, fv, args, kwargs):
        if reads_settings(interp.repo, qualname):
            food_cls = interp.load_function(FOOD, "Food")
            conv = food_cls.ns["conversions"]
            for f in FIELDS:
                interp.get_attr(conv, f)   # a read before this run's write raises AttributeError
            if not interp.truth(interp.get_attr(conv, "NUTRITION_PROPERTIES_ASSIGNED")):
                from pyvc.interp import PyExc, ExcVal
                raise PyExc(ExcVal("AssertionError", ("conversion settings read before being assigned in this run",)))
        return tuple({} for _ in range(n_out)) if n_out != 1 else {}
    return summ


_INITIALISERS = {"set_seaweed_params": 4, "init_fish_params": 1, "init_scp_params": 3, "init_cs_params": 3, "init_outdoor_crops": 2,
                 "init_greenhouse_params": 1, "init_stored_food": 2,
                 "init_meat_and_dairy_and_feed_from_breeding_and_subtract_feed_biofuels_round1": 7}


class InitialisedBeforeRead(Contract):
    prop = "C14"
    file = PARAMS
    func = "Parameters.compute_parameters_first_round"
    name = "settings_written_before_any_read"
    replayable = False
    summaries = {(PARAMS, f"Parameters.{k}"): _reader(n, k) for k, n in _INITIALISERS.items()}

    def inputs(self, S):
        params = S.call(PARAMS, "Parameters")
        # poison: the class-level settings object as a fresh process (or an arbitrary earlier run) may have left it -
        # here: nothing readable at all, so that any read before this run's write is caught
        food_cls = S.cls(FOOD, "Food")
        conv = food_cls.ns["conversions"]
        conv.attrs.clear()
        conv.attrs["NUTRITION_PROPERTIES_ASSIGNED"] = False
        kd, fd, pd = S.real("kd"), S.real("fd"), S.real("pd")
        S.assume(And(kd > 0, fd > 0, pd > 0))
        consts = S.opendict("constants_inputs", {"NUTRITION": {"KCALS_DAILY": unwrap(kd), "FAT_DAILY": unwrap(fd), "PROTEIN_DAILY": unwrap(pd)},
                                                 "INCLUDE_FAT": False, "INCLUDE_PROTEIN": False, "NMONTHS": 120}, kind="float")
        loader = S.obj("src/scenarios/scenarios.py", "Scenarios")
        for fl in ("NONHUMAN_CONSUMPTION_SET", "WASTE_SET", "INTAKE_CONSTRAINTS_SET", "NUTRITION_PROFILE_SET", "STORED_FOOD_SET",
                   "STORED_FOOD_END_SIM_SET", "SCALE_SET", "SEASONALITY_SET", "GRASSES_SET", "GENERIC_INITIALIZED_SET", "FISH_SET",
                   "DISRUPTION_SET", "SCENARIO_SET", "PROTEIN_SET", "FAT_SET", "CULLING_PARAM_SET", "MEAT_STRATEGY_SET"):
            unwrap(loader).attrs[fl] = True
        unwrap(loader).attrs["scenario_description"] = ""
        return dict(args=[params, consts, {}, loader], conv=conv)

    def on_raise(self, S, a, exc):
        # the poisoned settings object was read (or asserted on) before this run wrote it
        return {"conversion_settings_assigned_before_first_read": V(False)}

    def ensures(self, S, a, res):
        return {"conversion_settings_assigned_before_first_read": V(a["conv"].attrs.get("NUTRITION_PROPERTIES_ASSIGNED") is True),
                "all_fields_assigned_in_this_run": V(set(a["conv"].attrs.keys()) == set(FIELDS))}


# ---- effect inventory ------------------------------------------------------------------------------------------

SKIP_DIRS = ("src/utilities", "src/import_scripts_no_food_trade")


def persistent_writes(repo, tier, seed):
    t0 = time.time()
    found = {}
    classes = set()
    trees = {}
    for root, _, files in os.walk(os.path.join(repo, "src")):
        rel_root = os.path.relpath(root, repo)
        if any(rel_root.startswith(s) for s in SKIP_DIRS):
            continue
        for fn in files:
            if fn.endswith(".py"):
                rel = os.path.join(rel_root, fn)
                tree = ast.parse(open(os.path.join(repo, rel)).read())
                trees[rel] = tree
                for n in ast.walk(tree):
                    if isinstance(n, ast.ClassDef):
                        classes.add(n.name)

    def note(kind, rel, what):
        found.setdefault(kind, set()).add(f"{rel}: {what}")

    for rel, tree in trees.items():
        module_mutables = set()
        for st in tree.body:
            if isinstance(st, ast.Assign) and isinstance(st.value, (ast.List, ast.Dict, ast.Set, ast.ListComp, ast.DictComp)):
                for t in st.targets:
                    if isinstance(t, ast.Name):
                        module_mutables.add(t.id)
        for fn in [n for n in ast.walk(tree) if isinstance(n, (ast.FunctionDef, ast.AsyncFunctionDef))]:
            params = {a.arg for a in fn.args.args + fn.args.kwonlyargs}
            mutable_defaults = set()
            pos = fn.args.args[len(fn.args.args) - len(fn.args.defaults):]
            for a_, d in zip(pos, fn.args.defaults):
                if isinstance(d, (ast.List, ast.Dict, ast.Set)):
                    mutable_defaults.add(a_.arg)
            local_stores = {n.id for n in ast.walk(fn) if isinstance(n, ast.Name) and isinstance(n.ctx, ast.Store)}
            globals_decl = {g for n in ast.walk(fn) if isinstance(n, ast.Global) for g in n.names}
            for g in globals_decl & local_stores:
                note("module global assigned", rel, f"{fn.name}: global {g}")
            for n in ast.walk(fn):
                targets = []
                if isinstance(n, ast.Assign):
                    targets = n.targets
                elif isinstance(n, (ast.AugAssign, ast.AnnAssign)):
                    targets = [n.target]
                for t in targets:
                    base = t
                    while isinstance(base, (ast.Attribute, ast.Subscript)):
                        base = base.value
                    if isinstance(base, ast.Name) and isinstance(t, (ast.Attribute, ast.Subscript)):
                        if base.id in classes and base.id not in local_stores:
                            note("class attribute assigned", rel, f"{fn.name}: {ast.unparse(t)}")
                        if base.id == "cls":
                            note("class attribute assigned", rel, f"{fn.name}: {ast.unparse(t)}")
                        if base.id in module_mutables and base.id not in local_stores and base.id not in params:
                            note("module-level object mutated", rel, f"{fn.name}: {ast.unparse(t)}")
                        if base.id in mutable_defaults and not (base.id in local_stores):
                            note("mutable default argument mutated", rel, f"{fn.name}: {ast.unparse(t)}")
                if isinstance(n, ast.Call) and isinstance(n.func, ast.Attribute):
                    recv = n.func.value
                    base = recv
                    while isinstance(base, (ast.Attribute, ast.Subscript)):
                        base = base.value
                    mutators = ("append", "extend", "update", "pop", "clear", "insert", "remove", "setdefault", "add")
                    if isinstance(base, ast.Name) and n.func.attr in mutators:
                        if base.id in module_mutables and base.id not in local_stores and base.id not in params:
                            note("module-level object mutated", rel, f"{fn.name}: {ast.unparse(n.func)}()")
                        if base.id in mutable_defaults and base.id not in local_stores:
                            note("mutable default argument mutated", rel, f"{fn.name}: {ast.unparse(n.func)}()")
                    # writes through the shared class-level settings object
                    txt = ast.unparse(n.func)
                    if txt.endswith("conversions.set_nutrition_requirements"):
                        note("class-level settings object written", rel, f"{fn.name}: {txt}()")
    allowed_kinds = {"class-level settings object written"}
    unexpected = {k: sorted(v) for k, v in found.items() if k not in allowed_kinds}
    settings_writers = sorted(found.get("class-level settings object written", []))
    ok = not unexpected and all("Food.conversions.set_nutrition_requirements" in w or "conversions.set_nutrition_requirements" in w for w in settings_writers)
    detail = f"persistent writes found: settings object via {settings_writers}; unexpected: {unexpected}"
    return [{"name": "C14/inventory/only_the_conversion_settings_outlive_a_run", "kind": "structural", "status": "discharged" if ok else "failed",
             "backend": "ast effect scan over src/ (excluding utilities, import scripts)", "seconds": round(time.time() - t0, 2),
             "detail": detail[:1500], "goal": "persistent locations written = {Food.conversions}",
             "replay_verdict": None if ok else "violation", "replay": None if ok else {"verdict": "violates-natively", "detail": detail[:3000]}}]


def _scan_trees(repo):
    trees = {}
    for root, _, files in os.walk(os.path.join(repo, "src")):
        rel_root = os.path.relpath(root, repo)
        if any(rel_root.startswith(s) for s in SKIP_DIRS):
            continue
        for fn in files:
            if fn.endswith(".py"):
                rel = os.path.join(rel_root, fn)
                trees[rel] = ast.parse(open(os.path.join(repo, rel)).read())
    return trees


def class_level_mutables(repo, tier, seed):
    """A class-body attribute holding a mutable object and mutated through `self.` / `cls.` without a per-instance
    rebinding is shared by every instance, hence by every run: none may exist (besides Food.conversions, handled by
    the initialise-before-read contracts)."""
    t0 = time.time()
    bad = []
    for rel, tree in _scan_trees(repo).items():
        for c in [n for n in ast.walk(tree) if isinstance(n, ast.ClassDef)]:
            shared = {}
            for st in c.body:
                if isinstance(st, ast.Assign) and isinstance(st.value, (ast.List, ast.Dict, ast.Set, ast.ListComp, ast.DictComp, ast.Call)):
                    for t in st.targets:
                        if isinstance(t, ast.Name):
                            shared[t.id] = ast.unparse(st.value)
            if not shared:
                continue
            rebound = {t.attr for n in ast.walk(c) if isinstance(n, (ast.Assign, ast.AnnAssign, ast.AugAssign))
                       for t in (n.targets if isinstance(n, ast.Assign) else [n.target])
                       if isinstance(t, ast.Attribute) and isinstance(t.value, ast.Name) and t.value.id == "self"}
            for n in ast.walk(c):
                tgt = None
                if isinstance(n, (ast.Assign, ast.AugAssign)):
                    for t in (n.targets if isinstance(n, ast.Assign) else [n.target]):
                        if isinstance(t, (ast.Subscript, ast.Attribute)) and isinstance(t.value, ast.Attribute):
                            tgt = t.value
                elif isinstance(n, ast.Call) and isinstance(n.func, ast.Attribute) and isinstance(n.func.value, ast.Attribute) \
                        and n.func.attr in ("append", "extend", "update", "pop", "clear", "insert", "remove", "setdefault", "add"):
                    tgt = n.func.value
                if tgt is not None and isinstance(tgt.value, ast.Name) and tgt.value.id in ("self", "cls", c.name) and tgt.attr in shared \
                        and tgt.attr not in rebound:
                    if (c.name, tgt.attr) == ("Food", "conversions"):
                        continue
                    bad.append(f"{rel}: class {c.name}.{tgt.attr} = {shared[tgt.attr]} mutated in place at line {n.lineno}")
    ok = not bad
    return [{"name": "C14/inventory/no_class_level_mutable_is_mutated_in_place", "kind": "structural", "status": "discharged" if ok else "failed",
             "backend": "ast effect scan", "seconds": round(time.time() - t0, 2), "detail": "; ".join(bad)[:1500] or "none found",
             "goal": "no shared class-body object is mutated through an instance", "replay_verdict": None if ok else "violation",
             "replay": None if ok else {"verdict": "violates-natively", "detail": bad}}]


def files_written_are_never_read(repo, tier, seed):
    """The file system as a channel between runs: everything the scanned code writes goes under results/ (or a bare
    diagnostic file name); nothing it reads comes from there.  Memoising decorators are flagged as well."""
    t0 = time.time()
    bad = []
    nwrites = nreads = 0

    def resolve(fn, e):
        if isinstance(e, ast.Name):
            for n in ast.walk(fn):
                if isinstance(n, ast.Assign) and any(isinstance(t, ast.Name) and t.id == e.id for t in n.targets):
                    return ast.unparse(n.value)
            pos = fn.args.args[len(fn.args.args) - len(fn.args.defaults):]
            for a_, d in zip(pos, fn.args.defaults):
                if a_.arg == e.id:
                    return ast.unparse(d)
        return ast.unparse(e)

    for rel, tree in _scan_trees(repo).items():
        for fn in [n for n in ast.walk(tree) if isinstance(n, ast.FunctionDef)]:
            for d in fn.decorator_list:
                if any(k in ast.unparse(d) for k in ("lru_cache", "cache", "memo")):
                    bad.append(f"{rel}: {fn.name} is memoised across calls ({ast.unparse(d)})")
            for n in ast.walk(fn):
                if not isinstance(n, ast.Call):
                    continue
                txt = ast.unparse(n.func)
                is_write = txt.endswith((".to_csv", ".to_pickle", ".to_excel", "np.save", "json.dump", "pickle.dump")) or (
                    txt == "open" and len(n.args) > 1 and isinstance(n.args[1], ast.Constant) and any(ch in str(n.args[1].value) for ch in "wax+"))
                is_read = txt.endswith((".read_csv", ".read_excel", ".read_pickle", "np.load", "np.loadtxt")) or (
                    txt == "open" and not (len(n.args) > 1 and isinstance(n.args[1], ast.Constant) and any(ch in str(n.args[1].value) for ch in "wax+")))
                if txt.endswith(("json.dump", "pickle.dump")) or not n.args:
                    continue
                path = resolve(fn, n.args[0])
                if is_write:
                    nwrites += 1
                    if "'data'" in path or '"data"' in path or "data/" in path:
                        bad.append(f"{rel}: {fn.name} writes into the input data tree: {path[:100]}")
                elif is_read:
                    nreads += 1
                    if "results" in path:
                        bad.append(f"{rel}: {fn.name} reads a file a run writes: {path[:100]}")
    ok = not bad and nwrites > 0 and nreads > 0
    return [{"name": "C14/inventory/files_written_by_a_run_are_never_read_by_a_run", "kind": "structural", "status": "discharged" if ok else "failed",
             "backend": "ast effect scan", "seconds": round(time.time() - t0, 2), "detail": ("; ".join(bad)[:1500] or f"{nwrites} write sites, {nreads} read sites"),
             "goal": "write paths under results/ or bare names; read paths never under results/; no memoising decorators",
             "replay_verdict": None if ok else "violation", "replay": None if ok else {"verdict": "violates-natively", "detail": bad}}]


def first_thing_a_run_does(repo, tier, seed):
    """run_and_analyze_scenario calls compute_parameters_first_round - on a Parameters object it created itself - before
    anything that could read the shared settings: every statement before that call only creates the run's own
    Interpreter / Parameters objects or binds literals (in any order, directly or in a private helper)."""
    from contracts import astscan
    tree = ast.parse(open(os.path.join(repo, RS)).read())
    methods = astscan.class_methods(tree, "ScenarioRunner")
    body = [s for s in astscan.flat_body(methods, methods["run_and_analyze_scenario"])
            if not (isinstance(s, ast.Expr) and isinstance(s.value, ast.Constant))]
    k = next((i for i, s in enumerate(body) if any(isinstance(n, ast.Call) and isinstance(n.func, ast.Attribute)
                                                    and n.func.attr == "compute_parameters_first_round" for n in ast.walk(s))), None)
    own, other = set(), []

    def harmless(st):
        if not isinstance(st, ast.Assign) or len(st.targets) != 1 or not isinstance(st.targets[0], ast.Name):
            return False
        v = st.value
        if isinstance(v, ast.Constant):
            return True
        if isinstance(v, ast.Call) and isinstance(v.func, ast.Name) and v.func.id in ("Interpreter", "Parameters") and not v.args and not v.keywords:
            if v.func.id == "Parameters":
                own.add(st.targets[0].id)
            return True
        return False

    if k is not None:
        other = [ast.unparse(s)[:80] for s in body[:k] if not harmless(s)]
        call = next(n for n in ast.walk(body[k]) if isinstance(n, ast.Call) and isinstance(n.func, ast.Attribute)
                    and n.func.attr == "compute_parameters_first_round")
        on_own = isinstance(call.func.value, ast.Name) and call.func.value.id in own
    ok = k is not None and not other and on_own
    detail = "no call to compute_parameters_first_round at the top level" if k is None else \
        f"statements before it that are not object creation / literals: {other}; called on its own Parameters object: {on_own}"
    return [{"name": "C14/order/run_creates_its_own_objects_and_computes_parameters_first", "kind": "structural",
             "status": "discharged" if ok else "failed", "backend": "ast", "seconds": 0, "detail": detail,
             "goal": "only Interpreter() / Parameters() / literals before compute_parameters_first_round(...) on the run's own Parameters",
             "replay_verdict": None if ok else "violation", "replay": None if ok else {"verdict": "violates-natively", "detail": detail}}]


from contracts import C13 as _c13


class SharedOptionsNotWritten(_c13.KnownToFail):
    """The option dictionary of a batch is handed to every country's run: the known-failure patch must go to a copy."""
    prop = "C14"


class SameAnswerTheSecondTime(Contract):
    """History-independence in miniature: alter_scenario_if_known_to_fail called twice in one process with equal
    arguments (fresh dictionaries, arbitrary option strings and country code) gives equal answers - whatever it keeps
    at module or class level must not be consumed by the first call."""
    prop = "C14"
    file = RS
    func = "ScenarioRunner.alter_scenario_if_known_to_fail"
    name = "a_second_call_with_the_same_arguments_gives_the_same_answer"
    replayable = False
    max_paths = 4000

    def inputs(self, S):
        from contracts.C13 import BASE
        keys = ("cull", "scenario", "shutoff", "crop_disruption", "meat_strategy", "ratio_stocks_untouched")
        vals = {k: unwrap(S.str("opt_" + k)) for k in keys}
        o1, o2 = dict(BASE), dict(BASE)
        o1.update(vals)
        o2.update(vals)
        iso3 = S.str("iso3")
        r1, r2 = S.obj(RS, "ScenarioRunner"), S.obj(RS, "ScenarioRunner")
        return dict(calls=[dict(func=self.func, args=[r1, o1, iso3]), dict(func=self.func, args=[r2, o2, iso3])], keys=list(o1.keys()))

    def ensures(self, S, a, res):
        import ast as _ast
        r1, r2 = unwrap(res)
        I = S.I
        same = [V(isinstance(r1, dict) and isinstance(r2, dict) and set(r1.keys()) == set(r2.keys()))]
        if same[0].v:
            same += [V(I.truth(I.compare(_ast.Eq(), r1[k], r2[k]))) for k in r1]
        return {"second_answer_equals_the_first": And(*same)}


class YamlBatch(Contract):
    """run_scenarios_from_yaml runs the simulations of one file one after the other: each is handed the horizon and the
    country list of the file's settings block and its own options - whatever the simulations before it contained
    (here: the first simulation carries a horizon of its own and extra keys, the second does not).  The runner enters
    as a recorder."""
    prop = "C14"
    file = "src/scenarios/run_scenarios_from_yaml.py"
    func = "run_scenarios_from_yaml"
    name = "each_simulation_of_a_file_gets_the_files_settings_whatever_came_before"
    replayable = False

    def inputs(self, S):
        n_settings, n_first = S.int("settings_NMONTHS"), S.int("first_simulations_own_NMONTHS")
        S.assume(And(n_settings >= 1, n_first >= 1))
        first = {"title": "first", "scale": "country", "NMONTHS": unwrap(n_first), "shutoff": "immediate"}
        second = {"title": "second", "scale": "country", "shutoff": "continued"}
        self.second_before = dict(second)
        cfg = {"settings": {"countries": ["AAA", "BBB"], "NMONTHS": unwrap(n_settings)}, "simulations": {"one": first, "two": second}}
        log = self.log = []

        def run(interp, ctx, fv, args, kwargs):
            opt = kwargs.get("scenario_option")
            log.append(dict(options=dict(opt) if isinstance(opt, dict) else opt, countries=kwargs.get("countries_list"), title=kwargs.get("title")))
            return None

        RM = "src/scenarios/run_model_no_trade.py"
        self.summaries = {(RM, "ScenarioRunnerNoTrade.__init__"): lambda *a, **k: None,
                          (RM, "ScenarioRunnerNoTrade.run_model_no_trade"): run}
        return dict(args=[cfg, False, False, False], n=n_settings)

    def ensures(self, S, a, res):
        log = self.log
        if len(log) != 2 or not all(isinstance(r["options"], dict) for r in log):
            return {"every_simulation_is_run_once_in_order": V(False)}
        two = log[1]["options"]
        rest = {k: v for k, v in two.items() if k != "NMONTHS"}
        return {"every_simulation_is_run_once_in_order": V([r["title"] for r in log] == ["first", "second"]),
                "later_simulation_gets_the_settings_horizon": V(two.get("NMONTHS")) == a["n"],
                "later_simulation_gets_the_settings_countries": V(list(log[1]["countries"] or []) == ["AAA", "BBB"]),
                "later_simulation_keeps_exactly_its_own_options": V(rest == self.second_before)}


def _c10_resettings():
    from contracts import C10
    from contracts.common import relabelled
    return relabelled([c for c in C10.CONTRACTS if type(c).__name__ == "Resettings"], "C14")


# (the conversion tables follow the CURRENT settings only, whatever was converted under earlier settings: C10's
# contract, re-run under this property - a memo keyed on part of the settings would survive into the next run)
CONTRACTS = [Reestablished(), InitialisedBeforeRead(), SharedOptionsNotWritten(), SameAnswerTheSecondTime(), YamlBatch()] + _c10_resettings()
EXTRA = [persistent_writes, class_level_mutables, files_written_are_never_read, first_thing_a_run_does]
TRUSTED = [
    "CBC, numpy and pandas are deterministic functions of their inputs; the data files are not modified between runs",
    "the effect scan resolves names syntactically (class names, module-level mutable literals, mutable default arguments, `global`); plotting / import-script utilities are outside the scanned set",
    "callee summaries in the initialise-before-read contract read every conversion field (worst case) instead of executing the initialisers",
    "caller-owned inputs are not written: C13's frame obligations",
]
NOT_DECIDED = ["bit-identical output of the external binaries (CBC) across processes - determinism of the solver is assumed, not proved"]
ASSUMPTIONS = list(TRUSTED)
MIN_OBLIGATIONS = 12
LEVEL = "proof"
