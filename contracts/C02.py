"""C02 - percent fed is the true optimum of the allocation problem (the decidable part: the formulation).

Over the templates extracted from the real builders (see C01 / pyvc.lp):
 (i)   soundness   - every point feasible for the code's constraints is a physical allocation: that is C01
                     (inherits the known finding F1 for meat in the storage regime);
 (ii)  completeness- every physically feasible allocation (the statement's ledgers, the round's charge, the intake
                     caps) lifts to a point feasible for the code's constraints with the same monthly percent fed, by
                     explicit witnesses for the auxiliary variables (start / end / storage / consumed);
 (iii) objective   - the model built by the real add_variables_and_constraints_to_model for a 14-month horizon is
                     EQUIVALENT to the conjunction of the month templates, its objective is the variable bounded above
                     by every month's consumed kcals (human rounds) resp. by 2/3 feed + 1/3 biofuel (feed round, feed
                     weighted twice biofuel), human consumption is pinned within 1e-5 (1e-4 below 10 M people);
 (iv)  solver call - first solve uses gapRel <= 1e-5, status 1 is asserted, the value returned as percent fed is
                     model.objective.value() of that first solve.
NOT decided: that CBC's reported optimum IS the optimum of the model it was given (trusted).
"""
import ast
import os
import re
import time
from fractions import Fraction
import z3

from pyvc import lp
from pyvc.lp import K, N, V, at, prove, series_fn, const
from pyvc.interp import Interp, Ctx
from pyvc import spec as sp
from pyvc.values import LpVar, Sym
from pyvc.pulpmodel import LpModel
from contracts.lpcommon import get_templates, ALL, FAMILIES, world_facts
from contracts.C01 import g, use_stored, use_crops, use_meat, use_scp, use_cs, cumf, unfold, bounds

OPT = "src/optimizer/optimizer.py"
P = "C02"


def completeness(repo, tier, seed):
    """Physical allocation -> code-feasible point (witnesses for the bookkeeping variables)."""
    out = []
    k = K
    for store in (True, False):
        T, facts, _, _, _ = get_templates(repo, store, "to_humans")
        facts = world_facts(facts)
        reg = "storage" if store else "no_storage_between_years"
        S0 = const("INITIAL_STORED_FOOD")
        cs, cc, cp, cm, csl = cumf("stored_use"), cumf("crop_use"), cumf("crop_harvest"), cumf("meat_use"), cumf("slaughter")
        prod, sl = series_fn("crop_production"), series_fn("each_month_meat_slaughtered")
        running = series_fn("max_consumed_culled_kcals_each_month")
        total_meat = const("meat_summed_consumption")

        def defs(t):
            """witness definitions of the auxiliary variables at month t, from the physical quantities"""
            d = [
                V("crops_food_consumed")(t) == use_crops(t),
                V("crops_food_storage")(t) == cp(t) - cc(t),
                V("meat_end")(t) == total_meat - cm(t),
                V("meat_start")(t) == z3.If(t == 0, total_meat, total_meat - cm(t - 1)),
            ]
            if store:
                d += [V("stored_food_end")(t) == S0 - cs(t), V("stored_food_start")(t) == z3.If(t == 0, S0, S0 - cs(t - 1))]
            else:
                d += [V("stored_food_end")(t) == S0 - cs(z3.If(t <= 12, t, z3.IntVal(12))),
                      V("stored_food_start")(t) == z3.If(t == 0, S0, S0 - cs(z3.If(t - 1 <= 12, t - 1, z3.IntVal(12))))]
            return d

        def physical(t):
            """the statement's ledgers at month t (cumulative forms), for a human-maximising round"""
            meat_cap = (cm(t) <= csl(t)) if store else (use_meat(t) <= sl(t))  # without storage meat is eaten the month it is slaughtered
            ph = [meat_cap, unfold(cs, use_stored, t), unfold(cc, use_crops, t), unfold(cp, lambda x: prod(x), t),
                  unfold(cm, use_meat, t), unfold(csl, lambda x: sl(x), t),
                  cs(t) <= S0, cc(t) <= cp(t), cm(t) <= csl(t), running(t) == csl(t), sl(t) >= 0, prod(t) >= 0,
                  cs(t) >= 0, cc(t) >= 0, cm(t) >= 0, csl(t) >= 0,  # cumulative sums of non-negative quantities
                  csl(t) <= total_meat, cm(t) <= total_meat,
                  z3.Implies(t == N - 1, z3.And(cc(t) == cp(t)))]
            if store:
                ph.append(z3.Implies(t == N - 1, cs(t) == S0))
            else:
                ph.append(z3.Implies(t > 12, z3.And(V("stored_food_to_humans")(t) == 0, V("stored_food_feed")(t) == 0,
                                                    V("stored_food_biofuel")(t) == 0)))
            return ph

        free = ["stored_food_to_humans", "stored_food_feed", "stored_food_biofuel", "crops_food_to_humans", "crops_food_feed",
                "crops_food_biofuel", "meat_eaten"]
        pos = lambda t: [V(f)(t) >= 0 for f in free]
        ctx = facts + [k >= 0, k < N] + pos(k) + pos(k - 1) + physical(k) + [z3.Implies(k > 0, z3.And(physical(k - 1)))] \
            + defs(k) + [z3.Implies(k > 0, z3.And(defs(k - 1)))]
        if not store:
            # months beyond the first year: the witness keeps the stock where month 12 left it
            ctx += [z3.Implies(k > 13, cs(k - 1) == cs(z3.IntVal(12))), z3.Implies(k > 12, cs(k) == cs(k - 1))]
        for fn in ("add_stored_food_to_model", "add_outdoor_crops_to_model", "add_meat_to_model"):
            goal = at(T[fn], k)
            out.append(prove(f"{P}/completeness[{reg}]/{fn}/physical_allocation_satisfies_code_constraints", ctx, goal))
            aux = {"add_stored_food_to_model": ["stored_food_start", "stored_food_end"],
                   "add_outdoor_crops_to_model": ["crops_food_storage", "crops_food_consumed"],
                   "add_meat_to_model": ["meat_start", "meat_end"]}[fn]
            out.append(prove(f"{P}/completeness[{reg}]/{fn}/witness_variables_non_negative", ctx, z3.And([V(a)(k) >= 0 for a in aux])))
    return out


def intake_caps(repo, tier, seed):
    """The documented intake caps, written from the statement: a resilient food eaten by people is at most its share
    of the INITIAL population's need and at most the same share of what is ACTUALLY eaten that month; its use as feed /
    biofuel is at most its share of that round's feed / biofuel charge.  The constraints the real
    add_percentage_intake_constraints emits for a symbolic month must be equivalent to exactly that (a missing cap
    lets the optimiser report a percent fed no cap-respecting allocation reaches)."""
    out = []
    k = K
    foods = {"seaweed": const("SEAWEED_KCALS"), "methane_scp": z3.RealVal(1), "cellulosic_sugar": z3.RealVal(1)}
    for otype in ("to_humans", "to_animals"):
        for store in (True, False):
            reg = ("storage" if store else "no_storage_between_years") + "," + otype
            T, facts, _, _, _ = get_templates(repo, store, otype)
            facts = world_facts(facts)
            t = T["add_percentage_intake_constraints"]
            need0 = const("POP") * const("KCALS_MONTHLY") / 10 ** 9
            spec = []
            for f, ratio in foods.items():
                up = f.upper()
                if otype == "to_humans":
                    cap = const(f"MAX_{up}_AS_PERCENT_KCALS_HUMANS") / 100
                    eaten = V(f + "_to_humans")(k) * ratio
                    spec.append(eaten <= cap * need0)
                    spec.append(eaten <= cap * (V("consumed_kcals")(k) * const("BILLION_KCALS_NEEDED") / 100))
                spec.append(V(f + "_feed")(k) * ratio <= const(f"MAX_{up}_AS_PERCENT_KCALS_FEED") / 100 * series_fn("feed_charged")(k))
                spec.append(V(f + "_biofuel")(k) * ratio <= const(f"MAX_{up}_AS_PERCENT_KCALS_BIOFUEL") / 100 * series_fn("biofuel_charged")(k))
            hyps = list(facts) + [k >= 0, k < N] + bounds(k)
            out.append(prove(f"{P}/intake_caps[{reg}]/every_documented_cap_is_enforced", hyps + [at(t, k)], z3.And(spec)))
            out.append(prove(f"{P}/intake_caps[{reg}]/nothing_beyond_the_documented_caps_is_enforced", hyps + spec, at(t, k)))
            sv = z3.Solver()
            sv.add(*(hyps + spec))
            out.append({"name": f"{P}/intake_caps[{reg}]/caps_satisfiable", "kind": "cover", "backend": "z3", "goal": "sat", "detail": "", "seconds": 0,
                        "status": "discharged" if sv.check() == z3.sat else "failed"})
    return out


def soundness_is_c01(repo, tier, seed):
    """Clause 1 needs every code-feasible point to be physically feasible: C01's ledger lemmas, re-run under this
    property.  The obligations that are C01's OPEN known findings (F1, F2) are left to C01 - everything else, including
    the per-month meat cap, must hold here too."""
    from contracts import C01
    from pyvc.driver import load_known
    open_findings = {k["obligation"] for k in load_known()[0] if k["property"] == "C01"}
    out = []
    for o in C01.ledger_obligations(repo, tier, seed):
        if o["name"] in open_findings or "/feed_biofuel[" in o["name"]:
            continue
        o = dict(o)
        o["name"] = o["name"].replace("C01/", "C02/soundness/")
        out.append(o)
    return out


def formulation_uses_this_runs_inputs_only(repo, tier, seed):
    """'That round's supplies, charges and caps': the model an Optimizer builds must not depend on what an earlier
    Optimizer in the same process was given - C14's effect-scan obligations (nothing written at class / module level,
    no class-body mutable mutated through an instance), re-run under this property."""
    from contracts import C14
    out = []
    for fn in (C14.persistent_writes, C14.class_level_mutables):
        for o in fn(repo, tier, seed):
            o = dict(o)
            o["name"] = o["name"].replace("C14/inventory/", "C02/this_runs_inputs_only/")
            out.append(o)
    return out


def feed_round_shape(repo, tier, seed):
    """Feed-maximising round: within the demand ceilings and never rising from one month to the next - C01's
    feed / biofuel template lemmas, re-run under this property (they are part of what this round maximises over)."""
    from contracts import C01
    out = []
    for o in C01.ledger_obligations(repo, tier, seed):
        if "/feed_biofuel[" in o["name"]:
            o = dict(o)
            o["name"] = o["name"].replace("C01/", "C02/feed_round/")
            out.append(o)
    return out


def _name_to_family(name):
    m = re.match(r"(.*)_Month_(\d+)_Variable$", name)
    if m:
        return m.group(1).lower(), int(m.group(2))
    m = re.match(r"Humans_Fed_(Kcals|Fat|Protein)_(\d+)_Variable$", name)
    if m:
        return "consumed_" + m.group(1).lower(), int(m.group(2))
    return None


def built_model(repo, otype, n=14, store=True):
    """Execute the real add_variables_and_constraints_to_model for a literal n-month horizon."""
    I = Interp(repo)
    ctx = Ctx(I, [])
    I.new_path(ctx)
    S = sp.Spec(ctx, I)
    w = lp.World(S, ALL, store_between_years=store, optimization_type=otype)
    ctx.facts.append(N == n)
    w.consts_for_optimizer.entries["NMONTHS"] = n
    opt = w.opt
    opt.attrs["NMONTHS"] = n
    init = I.call_method(opt, "load_variable_names_and_prefixes", [])
    opt.attrs["initial_variables"] = init
    model = LpModel("optimization", -1)
    res = I.call_method(opt, "add_variables_and_constraints_to_model", [model, dict(init), w.consts_for_optimizer, otype])
    model, variables = res[0], res[1]
    subst = []
    for v in ctx.lp_vars:
        fam = _name_to_family(v.name) if isinstance(v.name, str) else None
        if fam is not None:
            subst.append((v.term, V(fam[0])(z3.IntVal(fam[1]))))
        elif v.name == "Objective_To_Optimize":
            subst.append((v.term, w.obj_var))
    formulas = {}
    for idx, (name, c) in enumerate(model.constraints):
        formulas[name or f"_C{idx}"] = z3.substitute(c.formula, *subst)
    obj = model.objective
    obj_t = obj.term if isinstance(obj, LpVar) else getattr(obj, "t", None)
    obj_t = z3.substitute(obj_t, *subst) if obj_t is not None else None
    return formulas, obj_t, w, [f for f in ctx.facts], dict(I.sources_used)


def model_is_the_templates(repo, tier, seed):
    out = []
    n = 14
    for otype in ("to_humans", "to_animals"):
        for store in (True, False):
            reg = f"{'storage' if store else 'no_storage_between_years'},{otype}"
            formulas, obj_t, w, facts, _ = built_model(repo, otype, n, store)
            T, tfacts, _, _, _ = get_templates(repo, store, otype)
            facts = world_facts(tfacts) + [N == n]
            allb = [b for j in range(n) for b in bounds(z3.IntVal(j))]
            per_month = []
            for j in range(n):
                for name, t in T.items():
                    # the objective constraints are compared separately below
                    if isinstance(t, z3.ExprRef) and name != "add_maximize_min_month_objective_to_model":
                        per_month.append(at(t, z3.IntVal(j)))
            real = [f for name, f in formulas.items() if "Objective_Constraint" not in name]
            out.append(prove(f"{P}/model[{reg}]/every_built_constraint_follows_from_the_month_templates", facts + allb + per_month, z3.And(real)))
            out.append(prove(f"{P}/model[{reg}]/every_month_template_is_in_the_built_model", facts + allb + real, z3.And(per_month)))
            objs = {k_: f for k_, f in formulas.items() if "Objective_Constraint" in k_}
            o = w.obj_var
            if otype == "to_humans":
                spec = z3.And([o <= V("consumed_kcals")(z3.IntVal(j)) for j in range(n)])
                out.append(prove(f"{P}/objective[{reg}]/bounded_by_every_months_consumed_kcals_and_nothing_else", facts, z3.And(list(objs.values())) == spec))
                # consumed kcals is the percent of need met by everything people eat that month
                j = K
                foods = (V("stored_food_to_humans")(j) + V("crops_food_to_humans")(j) + V("seaweed_to_humans")(j) * const("SEAWEED_KCALS")
                         + series_fn("milk_kcals")(j) + V("meat_eaten")(j) + V("cellulosic_sugar_to_humans")(j)
                         + V("methane_scp_to_humans")(j) + series_fn("greenhouse_crops")(j) + series_fn("fish_to_humans")(j))
                out.append(prove(f"{P}/objective[{reg}]/consumed_kcals_is_percent_of_need_met", facts + [at(T["add_total_human_consumption_to_model"], j)],
                                 V("consumed_kcals")(j) == foods / const("BILLION_KCALS_NEEDED") * 100))
            else:
                def fsum(j):
                    return (V("stored_food_feed")(j) + V("crops_food_feed")(j) + V("seaweed_feed")(j) * const("SEAWEED_KCALS")
                            + V("cellulosic_sugar_feed")(j) + V("methane_scp_feed")(j))
                def bsum(j):
                    return (V("stored_food_biofuel")(j) + V("crops_food_biofuel")(j) + V("seaweed_biofuel")(j) * const("SEAWEED_KCALS")
                            + V("cellulosic_sugar_biofuel")(j) + V("methane_scp_biofuel")(j))
                feed = z3.Sum([fsum(z3.IntVal(j)) for j in range(n)])
                bio = z3.Sum([bsum(z3.IntVal(j)) for j in range(n)])
                spec = o <= z3.RealVal(2) / 3 * feed + bio / 3
                out.append(prove(f"{P}/objective[{reg}]/feed_weighted_twice_biofuel", facts, z3.And(list(objs.values())) == spec))
            out.append({"name": f"{P}/objective[{reg}]/objective_is_the_objective_variable", "kind": "structural",
                        "status": "discharged" if (obj_t is not None and obj_t.eq(o)) else "failed", "backend": "evaluation",
                        "seconds": 0, "detail": str(obj_t), "goal": "model objective == V_objective_function"})
    return out


def pinned_consumption(repo, tier, seed):
    """Feed round: human consumption of each optimised food is pinned to the hand-off within the stated tolerance."""
    out = []
    k = K
    for small in (False, True):
        T, facts, _, _, _ = get_templates(repo, True, "to_animals", pop_small=small)
        facts = world_facts(facts)
        tol = Fraction(1, 10 ** 4) if small else Fraction(1, 10 ** 5)
        var = {"outdoor_crops": V("crops_food_to_humans")(k), "stored_food": V("stored_food_to_humans")(k), "meat": V("meat_eaten")(k),
               "methane_scp": V("methane_scp_to_humans")(k), "cellulosic_sugar": V("cellulosic_sugar_to_humans")(k),
               "seaweed": V("seaweed_to_humans")(k) * const("SEAWEED_KCALS")}
        for r, x in var.items():
            pin = series_fn("min_human_" + r)(k)
            goal = z3.And(x >= (1 - tol) * pin, x <= (1 + tol) * pin)
            out.append(prove(f"{P}/pinned[{'below' if small else 'above'}_10M_people]/{r}_within_tolerance_of_hand_off",
                             facts + [k >= 0, k < N, pin >= 0, at(T["pinned:" + r], k)], goal))
    return out


def solver_call(repo, tier, seed):
    """AST obligations on run_optimizations_on_constraints / optimize_to_humans / optimize_feed_to_animals."""
    src = open(os.path.join(repo, OPT)).read()
    tree = ast.parse(src)
    fns = {n.name: n for c in tree.body if isinstance(c, ast.ClassDef) and c.name == "Optimizer" for n in c.body
           if isinstance(n, ast.FunctionDef)}
    out = []

    def rec(name, ok, detail):
        out.append({"name": f"{P}/solver_call/{name}", "kind": "structural", "status": "discharged" if ok else "failed",
                    "backend": "ast", "seconds": 0, "detail": detail, "goal": name,
                    "replay_verdict": None if ok else "violation", "replay": None if ok else {"verdict": "violates-natively", "detail": detail}})

    from contracts import astscan
    run = astscan.flat_function(fns, fns["run_optimizations_on_constraints"])  # private helpers spliced in
    body = run.body
    solves = [n for n in ast.walk(run) if isinstance(n, ast.Call) and isinstance(n.func, ast.Attribute) and n.func.attr == "solve"]
    first = solves[0] if solves else None
    gap = None
    if first is not None and first.args and isinstance(first.args[0], ast.Call):
        for kw in first.args[0].keywords:
            if kw.arg == "gapRel" and isinstance(kw.value, ast.Constant):
                gap = kw.value.value
    rec("first_solve_gapRel_at_most_1e-5", gap is not None and gap <= 1e-5, f"gapRel={gap}")
    rec("exactly_one_solve_in_run_optimizations", len(solves) == 1, f"{len(solves)} solve calls")
    # status asserted
    asserts = [n for n in ast.walk(run) if isinstance(n, ast.Assert)]
    ok_assert = any("status == 1" in ast.unparse(a.test) for a in asserts)
    flag_true = any(isinstance(n, ast.Assign) and isinstance(n.targets[0], ast.Name) and n.targets[0].id == "ASSERT_SUCCESSFUL_OPTIMIZATION_FLAG"
                    and isinstance(n.value, ast.Constant) and n.value.value is True for n in ast.walk(run))
    rec("optimal_status_is_asserted", ok_assert and flag_true, f"assert status == 1: {ok_assert}; flag literal True: {flag_true}")
    # returned value = objective of the first solve, read before any later solve / constraint addition
    order = []
    for st in body:
        txt = ast.unparse(st)
        if ".solve(" in txt:
            order.append("solve")
        if "percent_fed_from_first_optimization = model.objective.value()" in txt:
            order.append("read")
        if "constrain_next_optimization" in txt or "optimize_best_food" in txt or "reduce_fluctuations" in txt:
            order.append("later")
    ret = [n for n in ast.walk(run) if isinstance(n, ast.Return)]
    ok_ret = len(ret) == 1 and ast.unparse(ret[0].value) == "percent_fed_from_first_optimization"
    ok_order = "read" in order and order.index("solve") < order.index("read") and all(i > order.index("read") for i, x in enumerate(order) if x == "later")
    rec("reported_value_is_objective_of_first_solve", ok_ret and ok_order, f"order={order}; return={[ast.unparse(r.value) for r in ret]}")
    for fn, sense_model in (("optimize_to_humans", "to_humans"), ("optimize_feed_to_animals", "to_animals")):
        f = astscan.flat_function(fns, fns[fn])
        txt = astscan.closure_text(fns, fns[fn])  # the method and every private helper it calls
        ok = "sense=LpMaximize" in txt and f"optimization_type='{sense_model}'" in txt and "percent_fed_from_model = self.run_optimizations_on_constraints(" in txt
        r = [n for n in ast.walk(f) if isinstance(n, ast.Return)]
        ok4 = len(r) == 1 and isinstance(r[0].value, ast.Tuple) and len(r[0].value.elts) == 4 and ast.unparse(r[0].value.elts[3]) == "percent_fed_from_model"
        rec(f"{fn}_maximises_and_returns_that_value_fourth", ok and ok4, f"maximise/round ok: {ok}; fourth element: {ok4}")
    return out


def _c08_stored_food_wiring():
    """The stock regime (storage between years or not) decides which meat and stored-food constraints the model gets: it
    must reach the optimiser as the scenario configured it, also when stored food is switched off - C08's wiring contract
    of Parameters.init_stored_food (what it hands on, and that it writes nothing else), re-run under this property."""
    from contracts import C08
    from contracts.common import relabelled
    return relabelled([c for c in C08.CONTRACTS if type(c).__name__ == "Wiring" and c.which == "init_stored_food"], "C02")


CONTRACTS = _c08_stored_food_wiring()
def _c01_variable_bounds():
    """Completeness (every physically feasible allocation lifts to a point of the model) assumes the variables have no bound
    other than non-negativity.  C01's contract of Optimizer.create_lp_variables (lower bound 0, NO upper bound), re-run under this property."""
    from contracts import C01
    from contracts.common import relabelled
    return relabelled([c for c in C01.CONTRACTS if type(c).__name__ == "LowBound"], "C02")


CONTRACTS = CONTRACTS + _c01_variable_bounds()
EXTRA = [completeness, soundness_is_c01, intake_caps, formulation_uses_this_runs_inputs_only, feed_round_shape, model_is_the_templates, pinned_consumption, solver_call]
TRUSTED = [
    "CBC's reported optimum is the optimum of the model it was given, within gapRel (NOT decided: no contract within reach expresses a solver's correctness)",
    "PuLP operator semantics; floats as reals",
    "the built model is compared with the month templates for a literal 14-month horizon (the builder's month loops are uniform in the month); the templates themselves are for a symbolic month and horizon",
    "soundness leg is C01 and inherits its known finding F1 (the LP's optimum can exceed the physically achievable one when meat is stored)",
    "intake caps (add_percentage_intake_constraints) are part of the model equivalence obligation; their meaning relative to the documentation is not restated here",
]
NOT_DECIDED = ["that the percent fed CBC reports is the true optimum of the linear programme (solver correctness)"]
ASSUMPTIONS = list(TRUSTED)
MIN_OBLIGATIONS = 20
