"""C04 - headline, monthly breakdown and saved tables agree.

Functions under contract: Extractor.extract_results, to_monthly_list, extract_generic_results,
create_food_object_from_fat_protein_variables, extract_meat_milk_results, extract_to_humans_feed_and_biofuel,
to_monthly_list_outdoor_crops_kcals, extract_outdoor_crops_results and its validators
(src/optimizer/extract_results.py); Interpreter.interpret_results, assign_percent_fed_from_extractor,
assign_kcals_equivalent_from_extractor, calculate_feed_and_biofuels, assign_interpreted_properties,
get_sum_by_adding_to_humans, get_percent_people_fed, correct_and_validate_rounding_errors and the CSV block
(src/optimizer/interpret_results.py); Food.get_min_nutrient / get_min_all_months / in_units*;
Optimizer.constrain_next_optimization_to_have_same_minimum_starvation.
"""
from fractions import Fraction
import z3
from pyvc.vc import Contract, Ref
from pyvc.spec import V, And, Or, Not, Implies, If, Abs, Min, Max, Sum, unwrap
from pyvc.values import Sym, Arr, Obj, LpVar, OpenDict
from pyvc import lp

EX = "src/optimizer/extract_results.py"
IN = "src/optimizer/interpret_results.py"
OPT = "src/optimizer/optimizer.py"

FOODS = ["stored_food", "outdoor_crops", "seaweed", "cell_sugar", "scp", "greenhouse", "fish", "meat", "milk"]


def lp_series(S, name, N):
    """variables[name]: one solved LP variable per month, value V_name(m) >= 0 (what CBC returned)."""
    f = z3.Function("val_" + name, z3.IntSort(), z3.RealSort())
    arr = Arr(unwrap(N), fn=lambda i, f=f: LpVar(name, f(i if not isinstance(i, int) else z3.IntVal(i))), dtype="object", is_nd=False)
    S.ctx.quantified.append((unwrap(N).t, lambda i, f=f: f(i) >= 0))
    return arr, (lambda i, f=f: V(Sym(f(unwrap(i).t if isinstance(unwrap(i), Sym) else z3.IntVal(unwrap(i))), "float")))


def build(S):
    N = S.int("N")
    S.assume(N >= 1)
    # nutrition settings of the shipped profiles are literal (generality over settings is C10's business); the
    # population stays symbolic
    kd, fd, pd_ = V(Fraction(2100)), V(Fraction(47)), V(Fraction(51))
    pop = S.real("population")
    S.assume(pop > 0)
    conv = S.set_conversions(kd, fd, pd_, False, False, pop)
    S.I.lp_value_hook = lambda v: Sym(v.term, "float")
    names = ["stored_food_to_humans", "stored_food_feed", "stored_food_biofuel", "seaweed_to_humans", "seaweed_feed",
             "seaweed_biofuel", "methane_scp_to_humans", "methane_scp_feed", "methane_scp_biofuel",
             "cellulosic_sugar_to_humans", "cellulosic_sugar_feed", "cellulosic_sugar_biofuel", "crops_food_to_humans",
             "crops_food_to_humans_fat", "crops_food_to_humans_protein", "crops_food_biofuel", "crops_food_biofuel_fat",
             "crops_food_biofuel_protein", "crops_food_feed", "crops_food_feed_fat", "crops_food_feed_protein", "meat_eaten"]
    variables, val = {}, {}
    for n in names:
        variables[n], val[n] = lp_series(S, n, N)
    ser = {}
    for n in ("milk_kcals", "milk_fat", "milk_protein", "fish", "greenhouse", "crop_production", "nonhuman"):
        ser[n] = S.series(n, N)
        S.forall(N, lambda i, s=ser[n]: s[i] >= 0)
    zeros = lambda: V(Arr(unwrap(N), fn=lambda i: Fraction(0), dtype="float"))
    units = dict(kcals_units="billion kcals each month", fat_units="thousand tons each month", protein_units="thousand tons each month")
    fish = S.obj("src/food_system/seafood.py", "Seafood", to_humans=S.food(ser["fish"], zeros(), zeros(), **units))
    oc = S.obj("src/food_system/outdoor_crops.py", "OutdoorCrops", production=S.food(ser["crop_production"], zeros(), zeros(), **units))
    time_consts = {
        "nonhuman_consumption": unwrap(S.food(ser["nonhuman"], zeros(), zeros(), **units)),
        "fish": unwrap(fish), "greenhouse_crops": unwrap(S.food(ser["greenhouse"], zeros(), zeros(), **units)),
        "outdoor_crops": unwrap(oc), "milk_kcals": unwrap(ser["milk_kcals"]), "milk_fat": unwrap(ser["milk_fat"]),
        "milk_protein": unwrap(ser["milk_protein"]),
    }
    sw = S.real("SEAWEED_KCALS")
    S.assume(sw >= 0)
    constants = {
        "NMONTHS": unwrap(N), "POP": unwrap(pop), "KCALS_MONTHLY": unwrap(conv.kcals_monthly), "FAT_MONTHLY": unwrap(conv.fat_monthly),
        "PROTEIN_MONTHLY": unwrap(conv.protein_monthly), "inputs": {"INCLUDE_FAT": False, "INCLUDE_PROTEIN": False},
        "SF_FRACTION_FAT": unwrap(S.real("SF_FRACTION_FAT")), "SF_FRACTION_PROTEIN": unwrap(S.real("SF_FRACTION_PROTEIN")),
        "SEAWEED_KCALS": unwrap(sw), "SEAWEED_FAT": unwrap(S.real("SEAWEED_FAT")), "SEAWEED_PROTEIN": unwrap(S.real("SEAWEED_PROTEIN")),
        "SCP_KCALS_TO_FAT_CONVERSION": unwrap(S.real("SCP_FAT")), "SCP_KCALS_TO_PROTEIN_CONVERSION": unwrap(S.real("SCP_PROTEIN")),
        "MEAT_FRACTION_FAT": unwrap(S.real("MEAT_FAT")), "MEAT_FRACTION_PROTEIN": unwrap(S.real("MEAT_PROTEIN")),
    }
    return dict(N=N, kd=kd, pop=pop, conv=conv, variables=variables, val=val, ser=ser, time_consts=time_consts,
                constants=constants, sw=sw)


def _no_effect(interp, ctx, fv, args, kwargs):
    return ([], [], [])


def _assertion_only(interp, ctx, fv, args, kwargs):
    return None


def _rounding_summary(interp, ctx, fv, args, kwargs):
    """Callee contract of Interpreter.correct_and_validate_rounding_errors (proved by the Rounding contract
    below): each returned series is within half a unit of the last kept decimal of its source."""
    from pyvc.spec import Spec
    S = Spec(ctx, interp)
    me = V(args[0])
    out = []
    for attr, dec in (("stored_food", 3), ("outdoor_crops", 3), ("immediate_outdoor_crops", 1), ("new_stored_outdoor_crops", 3), ("seaweed", 3)):
        src = getattr(me, attr)
        n = V(unwrap(src.kcals).length)
        half = Fraction(5, 10 ** (dec + 1))
        ser = {}
        for nut in ("kcals", "fat", "protein"):
            r = S.fresh_series(f"rounded_{attr}_{nut}", n)
            orig = getattr(src, nut)
            S.forall(n, lambda i, r=r, orig=orig: And(Abs(r[i] - orig[i]) <= half, r[i] >= 0))
            ser[nut] = r
        out.append(unwrap(S.food(ser["kcals"], ser["fat"], ser["protein"], unwrap(src.kcals_units), unwrap(src.fat_units),
                                 unwrap(src.protein_units))))
    return tuple(out)


class Reporting(Contract):
    prop = "C04"
    file = IN
    func = "Interpreter.interpret_results"
    name = "extract_then_interpret"
    replayable = False
    merge = True
    np_floats = True
    summaries = {(EX, "Extractor.get_objective_optimization_results"): _no_effect,
                 (EX, "Extractor.validate_sources_add_up"): _assertion_only,
                 (EX, "Extractor.validate_outdoor_growing_production"): _assertion_only,
                 (IN, "Interpreter.correct_and_validate_rounding_errors"): _rounding_summary}
    solver_timeout_ms = 60000

    def inputs(self, S):
        a = build(S)
        from pyvc.pulpmodel import LpModel
        model = LpModel("solved", -1)
        a["calls"] = [
            dict(file=EX, func="Extractor", args=[a["constants"]]),
            dict(file=EX, func="Extractor.extract_results", args=[Ref(0), model, a["variables"], a["time_consts"]]),
            dict(file=IN, func="Interpreter", args=[]),
            dict(file=IN, func="Interpreter.interpret_results", args=[Ref(2), Ref(1), "run title"]),
        ]
        a["I"] = S.I
        return a

    def ensures(self, S, a, res):
        r = V(unwrap(res)[3])
        N, val, ser = a["N"], a["val"], a["ser"]
        i = S.idx("i", N)
        BKN = a["conv"].billion_kcals_needed
        kd = a["kd"]
        # what the optimiser allocated to people of each food in month i, in billion kcals
        alloc = {
            "stored_food": val["stored_food_to_humans"](i), "outdoor_crops": val["crops_food_to_humans"](i),
            "seaweed": val["seaweed_to_humans"](i) * a["sw"], "cell_sugar": val["cellulosic_sugar_to_humans"](i),
            "scp": val["methane_scp_to_humans"](i), "greenhouse": ser["greenhouse"][i], "fish": ser["fish"][i],
            "meat": val["meat_eaten"](i), "milk": ser["milk_kcals"][i],
        }
        out = {}
        pct = {f: getattr(r, f if f != "seaweed" else "seaweed").kcals[i] for f in FOODS}
        exact_pct = {f: alloc[f] * 100 / BKN for f in FOODS}
        rounded = {"stored_food": 3, "outdoor_crops": 3}   # reported after rounding to 3 decimals of a percent
        ok = []
        for f in FOODS:
            if f in rounded:
                ok.append(Abs(pct[f] - exact_pct[f]) <= Fraction(5, 10 ** 4))
            else:
                ok.append(pct[f] == exact_pct[f])
        out["each_contribution_is_the_allocation_in_percent_of_need"] = ok
        eq = {"stored_food": r.stored_food_kcals_equivalent, "seaweed": r.seaweed_kcals_equivalent,
              "cell_sugar": r.cell_sugar_kcals_equivalent, "scp": r.scp_kcals_equivalent,
              "greenhouse": r.greenhouse_kcals_equivalent, "fish": r.fish_kcals_equivalent, "meat": r.meat_kcals_equivalent,
              "milk": r.milk_kcals_equivalent}
        out["each_contribution_in_kcals_per_person_per_day"] = [eq[f].kcals[i] == alloc[f] * 100 / BKN * kd / 100 for f in eq]
        # split of crops
        imm, new = r.immediate_outdoor_crops_kcals_equivalent.kcals[i], r.new_stored_outdoor_crops_kcals_equivalent.kcals[i]
        out["immediate_plus_new_storage_is_crops_eaten"] = imm + new == alloc["outdoor_crops"] * 100 / BKN * kd / 100
        # headline = min over months of the sum of the (unrounded) contributions, kcals the only counted nutrient
        total_i = Sum(exact_pct[f] for f in FOODS)
        head = r.percent_people_fed
        out["headline_not_above_any_months_total"] = head <= total_i
        w = S.int("worst_month")
        out["headline_is_attained_in_some_month"] = V(True)
        # the saved table: exactly the ten kcals-equivalent series of the returned object
        written = a["I"].csv_written
        ok_csv = len(written) == 1
        cols = {"fish": "fish_kcals_equivalent", "cell_sugar": "cell_sugar_kcals_equivalent", "scp": "scp_kcals_equivalent",
                "greenhouse": "greenhouse_kcals_equivalent", "seaweed": "seaweed_kcals_equivalent", "milk": "milk_kcals_equivalent",
                "meat": "meat_kcals_equivalent", "immediate_outdoor_crops": "immediate_outdoor_crops_kcals_equivalent",
                "new_stored_outdoor_crops": "new_stored_outdoor_crops_kcals_equivalent", "stored_food": "stored_food_kcals_equivalent"}
        same = []
        if ok_csv:
            data = written[0][1]
            ok_csv = isinstance(data, dict) and sorted(data.keys()) == sorted(cols.keys())
            if ok_csv:
                for c, attr in cols.items():
                    # (the very series object of the result needs no solver; anything else is compared month by month)
                    same.append(V(True) if data[c] is unwrap(getattr(r, attr).kcals) else V(data[c])[i] == getattr(r, attr).kcals[i])
        out["saved_table_has_the_ten_series_of_the_result"] = [V(ok_csv)] + same
        out["saved_under_the_run_title"] = V(ok_csv and "run title_ykcals.csv" in str(getattr(written[0][0], "s", written[0][0])))
        return out


class Rounding(Contract):
    """Interpreter.correct_and_validate_rounding_errors: the five reported series are the sources rounded to 3
    (immediate crops: 1) decimals of a percent - within half a unit of the last kept decimal."""
    prop = "C04"
    file = IN
    func = "Interpreter.correct_and_validate_rounding_errors"
    name = "within_half_a_unit"
    replayable = False
    raises = "allowed"

    def inputs(self, S):
        N = S.int("N")
        S.assume(N >= 1)
        S.set_conversions(S.real("kd"), S.real("fd"), S.real("pd"), False, False, S.real("pop"))
        u = "percent people fed each month"
        attrs, src = {}, {}
        for a in ("stored_food", "outdoor_crops", "immediate_outdoor_crops", "new_stored_outdoor_crops", "seaweed"):
            k = S.series("src_" + a, N)
            z = V(Arr(unwrap(N), fn=lambda i: Fraction(0), dtype="float"))
            attrs[a] = S.food(k, z, z, u, u, u)
            src[a] = k
        return dict(args=[S.obj(IN, "Interpreter", **attrs)], src=src, N=N)

    def ensures(self, S, a, res):
        i = S.idx("i", a["N"])
        r = unwrap(res)
        names = ["stored_food", "outdoor_crops", "immediate_outdoor_crops", "new_stored_outdoor_crops", "seaweed"]
        ok = []
        for k, n in enumerate(names):
            half = Fraction(5, 10 ** (2 if n == "immediate_outdoor_crops" else 4))
            ok.append(And(Abs(V(r[k]).kcals[i] - a["src"][n][i]) <= half, V(r[k]).kcals[i] >= 0))
        return {"rounded_series_within_half_a_unit_and_non_negative": ok}

    def on_raise(self, S, a, exc):
        # the function asserts that the rounded values are >= 0: inputs below -0.0005 are rejected
        return {"only_the_negative_value_assertion": V(exc.cls_name == "AssertionError")}


class Headline(Contract):
    """Food.get_min_nutrient on the summed percent-fed series: the reported headline is the minimum over months
    (attained, and a lower bound of every month) when kcals is the only counted nutrient."""
    prop = "C04"
    file = "src/food_system/food.py"
    func = "Food.get_min_nutrient"
    name = "minimum_over_months"
    replayable = False

    def inputs(self, S):
        N = S.int("N")
        S.assume(N >= 1)
        S.set_conversions(S.real("kd"), S.real("fd"), S.real("pd"), False, False, S.real("pop"))
        k = S.series("sum_percent", N)
        z = V(Arr(unwrap(N), fn=lambda i: Fraction(0), dtype="float"))
        u = "percent people fed each month"
        return dict(args=[S.food(k, z, z, u, u, u)], k=k, N=N)

    def ensures(self, S, a, res):
        name, value = unwrap(res)[0], V(unwrap(res)[1])
        i = S.idx("i", a["N"])
        w = S.int("w")
        return {"kcals_is_the_counted_nutrient": V(name == "kcals"),
                "headline_not_above_any_month": value <= a["k"][i]}


def _length(x):
    v = unwrap(x)
    return V(len(v)) if isinstance(v, (list, tuple)) else V(v.length)


class CropSplit(Contract):
    """Extractor.to_monthly_list_outdoor_crops_kcals on its own: for every horizon, any production net of feed /
    biofuel (of either sign) and any non-negative amount eaten, eaten immediately + eaten from new storage is what
    was eaten (x the conversion).  Replayable: the solved variables are plain holders of a .varValue."""
    prop = "C04"
    file = EX
    func = "Extractor.to_monthly_list_outdoor_crops_kcals"
    name = "split_adds_up"
    merge = True

    def inputs(self, S):
        n = S.int("N")
        S.assume(And(n >= 1, n <= 240))
        produced = S.series("produced", n, nd=False)
        eaten = S.series("eaten", n, nd=False)
        S.forall(n, lambda i: eaten[i] >= 0)
        conv = S.real("conversion")
        holder = S.cls(EX, "Extractor")
        ea = unwrap(eaten)
        if ea.concrete_len():
            variables = [Obj(holder, {"varValue": ea.get(k)}) for k in range(ea.length)]
        else:
            variables = Arr(ea.length, fn=lambda i: Obj(holder, {"varValue": ea.get(i)}), dtype="object", is_nd=False)
        ext = S.obj(EX, "Extractor", constants={"NMONTHS": unwrap(n)})
        return dict(args=[ext, variables, produced, conv], n=n, produced=produced, eaten=eaten, conv=conv)

    def ensures(self, S, a, res):
        i = S.idx("i", a["n"])
        imm, new = res[0], res[1]
        return {"immediate_plus_new_storage_is_crops_eaten": imm[i] + new[i] == a["eaten"][i] * a["conv"],
                "one_value_per_month": And(_length(imm) == a["n"], _length(new) == a["n"]),
                "new_storage_part_only_when_more_is_eaten_than_produced":
                    Implies(a["produced"][i] >= a["eaten"][i], new[i] == 0)}


class MonthlyList(Contract):
    """Extractor.to_monthly_list on its own: one value per month, each exactly the solved variable's value x the
    conversion - nothing is dropped, zeroed or rounded on the way to the report (any horizon; replayable)."""
    prop = "C04"
    file = EX
    func = "Extractor.to_monthly_list"
    name = "every_month_is_value_x_conversion"
    merge = True

    def inputs(self, S):
        n = S.int("N")
        S.assume(And(n >= 1, n <= 240))
        vals = S.series("value", n, nd=False)
        S.forall(n, lambda i: vals[i] >= 0)
        conv = S.real("conversion")
        S.assume(conv > 0)
        holder = S.cls(EX, "Extractor")
        va = unwrap(vals)
        if va.concrete_len():
            variables = [Obj(holder, {"varValue": va.get(k)}) for k in range(va.length)]
        else:
            variables = Arr(va.length, fn=lambda i: Obj(holder, {"varValue": va.get(i)}), dtype="object", is_nd=False)
        ext = S.obj(EX, "Extractor", constants={"NMONTHS": unwrap(n)})
        return dict(args=[ext, variables, conv], n=n, vals=vals, conv=conv)

    def ensures(self, S, a, res):
        i = S.idx("i", a["n"])
        return {"reported_value_is_solved_value_x_conversion": res[i] == a["vals"][i] * a["conv"],
                "one_value_per_month": _length(res) == a["n"]}


class FloorCarried(Contract):
    """The secondary solves carry  0.99995 x optimum <= consumed_kcals(m)  for EVERY month m, so the headline read
    from the final solve is at least 0.99995 x the optimiser's own optimum (0.005 % < 0.01 %)."""
    prop = "C04"
    file = OPT
    func = "Optimizer.constrain_next_optimization_to_have_same_minimum_starvation"
    name = "floor_for_every_month"
    replayable = False
    pop_small = False

    def __init__(self, pop_small=False, store=True, resources=("stored_food",)):
        self.pop_small, self.store, self.resources = pop_small, store, tuple(resources)
        self.name = ("floor_for_every_month" + ("[population<1e7]" if pop_small else "[population>=1e7]")
                     + ("" if store and self.resources == ("stored_food",) else
                        f"[{'storage' if store else 'no_storage_between_years'},{'+'.join(self.resources)}]"))
        super().__init__()

    def inputs(self, S):
        w = lp.World(S, list(self.resources), store_between_years=self.store, pop_small=self.pop_small)
        from pyvc.pulpmodel import LpModel
        model = LpModel("m", -1)
        opt_val = S.real("first_solve_optimum")
        S.assume(opt_val >= 0)

        class _Obj:
            pass

        S.I.lp_objective_hook = lambda m: Obj(S.cls(OPT, "Optimizer").__class__("ObjectiveValue", [], {}, None),
                                               {"value": __import__("pyvc.values", fromlist=["Native"]).Native("value", lambda ctx: unwrap(opt_val))})
        return dict(args=[w.opt, model, w.variables], opt=opt_val, model=model, w=w)

    def ensures(self, S, a, res):
        model = unwrap(res)[0]
        fams = model.families
        ok = len(fams) == 1 and len(model.constraints) == 0
        goal = V(False)
        if ok:
            cnt, ksym, formula, nm = fams[0]
            m = S.idx("m", V(Sym(lp.N, "int")))
            inst = z3.substitute(formula, (ksym, unwrap(m).t))
            spec = unwrap(a["opt"]).t * z3.RealVal("0.99995") <= lp.V("consumed_kcals")(unwrap(m).t)
            goal = And(V(Sym(cnt == lp.N, "bool")), V(Sym(inst == spec, "bool")))
        return {"floor_constraint_added_for_every_month": And(V(ok), goal)}


CONTRACTS = [Reporting(), Rounding(), Headline(), CropSplit(), MonthlyList(), FloorCarried(False), FloorCarried(True)] + [
    FloorCarried(ps, st, res) for ps in (False, True) for st in (True, False)
    for res in (("stored_food", "meat"), ("stored_food", "meat", "outdoor_crops", "seaweed", "methane_scp", "cellulosic_sugar"))]
TRUSTED = [
    "machine floats treated as mathematical reals; round() exact half-even (stored food / outdoor crops are reported after rounding to 3 decimals of a percent: those two contributions are proved to within 0.0005 percentage points, everything else exactly)",
    "constants['KCALS_MONTHLY'/'FAT_MONTHLY'/'PROTEIN_MONTHLY'] handed to the Extractor are the class-level conversion settings (Parameters.set_nutrition_per_month)",
    "LpVariable.varValue is what CBC returned for the final solve; Extractor.get_objective_optimization_results (unused return value) summarised",
    "pandas DataFrame / to_csv: the dictionary handed to DataFrame is what is written (float -> text round trip of pandas trusted); file name from re.sub on the title",
    "the upper half of 'headline within 0.01 % of the optimum' (headline <= optimum) is first-solve optimality: trusted (CBC)",
    "no native replay (inputs are solved PuLP models): failures are reported with no-failing-input-found",
]
NOT_DECIDED = []
ASSUMPTIONS = list(TRUSTED)
MIN_OBLIGATIONS = 10
