"""C10 - unit conversions are mutually consistent and anchored to the population's needs.

Functions under contract (src/food_system/unit_conversions.py): set_nutrition_requirements,
get_kcal_multipliers, get_fat_multipliers, get_protein_multipliers,
get_unit_multipliers_from_billion_kcals_thou_tons_thou_tons, get_conversion, in_units and the five in_units_*
wrappers; Food.__init__ (src/food_system/food.py) as the constructor of the results.
"""
import z3
from pyvc.vc import Contract, Ref
from pyvc.spec import V, And, Or, Not, Implies, If, Abs, Min, Max, Sum, unwrap

UC = "src/food_system/unit_conversions.py"
FOOD = "src/food_system/food.py"

KBASE = ["billion kcals", "billion people fed", "percent people fed", "million dry caloric tons",
         "kcals per person per day"]
FBASE = ["thousand tons", "million tons", "billion people fed", "percent people fed",
         "effective kcals per person per day", "grams per person per day"]
FORMS = ["", " each month", " per month"]
KUNITS = [b + f for b in KBASE for f in FORMS]  # 15
FUNITS = [b + f for b in FBASE for f in FORMS]  # 18


def settings(S):
    kd, fd, pd, pop = S.real("kcals_daily"), S.real("fat_daily"), S.real("protein_daily"), S.real("population")
    S.assume(And(kd > 0, fd > 0, pd > 0, pop > 0))
    conv = S.set_conversions(kd, fd, pd, S.bool("include_fat"), S.bool("include_protein"), pop)
    return dict(kd=kd, fd=fd, pd=pd, pop=pop, conv=conv)


def spec_multiplier(nutrient, base, s):
    """The documented meaning of each unit, relative to billion kcals / thousand tons per month,
    written from the unit names (30-day months), independently of the code's tables."""
    kd, fd, pd, pop = s["kd"], s["fd"], s["pd"], s["pop"]
    if nutrient == "kcals":
        return {
            "billion kcals": V(1),
            "billion people fed": 1 / (kd * 30),                      # 1e9 kcal / (kcal per person-month) / 1e9
            "percent people fed": 100 / (kd * 30 * pop / 10 ** 9),
            "million dry caloric tons": V(1) / 4000,                  # 4000 kcal/kg: 1e9 kcal = 250 t
            "kcals per person per day": 10 ** 9 / (pop * 30),
        }[base]
    daily = fd if nutrient == "fat" else pd
    monthly_thou_tons_per_person = daily * 30 / 10 ** 9          # grams -> thousand tons
    return {
        "thousand tons": V(1),
        "million tons": V(1) / 1000,
        "billion people fed": 1 / monthly_thou_tons_per_person / 10 ** 9,
        "percent people fed": 100 / (monthly_thou_tons_per_person * pop),
        "effective kcals per person per day": kd / (monthly_thou_tons_per_person * pop),
        "grams per person per day": daily / (monthly_thou_tons_per_person * pop),
    }[base]


class Multipliers(Contract):
    prop = "C10"
    file = UC
    func = "UnitConversions.get_kcal_multipliers"

    def __init__(self, nutrient):
        self.nutrient = nutrient
        self.name = nutrient
        self.func = f"UnitConversions.get_{'kcal' if nutrient == 'kcals' else nutrient}_multipliers"

    def inputs(self, S):
        s = settings(S)
        food = S.food(1, 1, 1)
        s["args"] = [food]
        return s

    def ensures(self, S, a, res):
        d = unwrap(res)
        bases = KBASE if self.nutrient == "kcals" else FBASE
        names = [b + f for b in bases for f in FORMS]
        out = {"table_has_exactly_the_supported_units": V(sorted(d.keys()) == sorted(names))}
        for b in bases:
            m = V(d[b])
            out[f"positive[{b}]"] = m > 0
            out[f"three_spellings_agree[{b}]"] = And(V(d[b + " each month"]) == m, V(d[b + " per month"]) == m)
            out[f"meaning[{b}]"] = m == spec_multiplier(self.nutrient, b, a)
        return out


class Conversion(Contract):
    """get_conversion(from, to) = m_to / m_from per nutrient, for every pair of supported names."""
    prop = "C10"
    file = UC
    func = "UnitConversions.get_conversion"
    solver_timeout_ms = 30000

    def __init__(self, i):
        self.i = i
        self.name = f"from#{i}"

    def inputs(self, S):
        s = settings(S)
        food = S.food(1, 1, 1)
        i = self.i
        frm = [KUNITS[i % 15], FUNITS[i], FUNITS[i]]
        if i >= 15:
            # second pass over kcals names so that all 15 x 15 pairs occur with j below
            frm[0] = KUNITS[(i * 7) % 15]
        s["frm"] = frm
        s["calls"] = [dict(func=self.func, args=[food, list(frm), KUNITS[j % 15], FUNITS[j], FUNITS[(j + 5) % 18]])
                      for j in range(18)]
        s["food"] = food
        return s

    def ensures(self, S, a, res):
        out = {}
        mk = {u: spec_multiplier("kcals", u.replace(" each month", "").replace(" per month", ""), a) for u in KUNITS}
        mf = {u: spec_multiplier("fat", u.replace(" each month", "").replace(" per month", ""), a) for u in FUNITS}
        mp = {u: spec_multiplier("protein", u.replace(" each month", "").replace(" per month", ""), a) for u in FUNITS}
        frm = a["frm"]
        ok = []
        for j, r in enumerate(unwrap(res)):
            tk, tf, tp = KUNITS[j % 15], FUNITS[j], FUNITS[(j + 5) % 18]
            ok.append(And(V(r[0]) == mk[tk] / mk[frm[0]], V(r[1]) == mf[tf] / mf[frm[1]], V(r[2]) == mp[tp] / mp[frm[2]]))
        out["conversion_is_ratio_of_meanings"] = And(*ok)
        return out


class UnknownUnit(Contract):
    prop = "C10"
    file = UC
    func = "UnitConversions.get_unit_multipliers_from_billion_kcals_thou_tons_thou_tons"
    raises = "allowed"

    def __init__(self, pos, bad):
        self.pos, self.bad = pos, bad
        self.name = f"unknown[{pos}:{bad}]"

    def inputs(self, S):
        s = settings(S)
        units = ["billion kcals", "thousand tons", "thousand tons"]
        units[self.pos] = self.bad
        s["args"] = [S.food(1, 1, 1), units]
        return s

    def ensures(self, S, a, res):
        return {"unknown_unit_name_is_rejected": V(False)}

    def on_raise(self, S, a, exc):
        return {"unknown_unit_name_is_rejected": V(exc.cls_name == "AssertionError")}


class InUnits(Contract):
    """Food.in_units for every form (total / each month / per month), scalar and series, every target."""
    prop = "C10"
    file = UC
    func = "UnitConversions.in_units"
    solver_timeout_ms = 30000

    def __init__(self, form, i, single_value=False):
        # single_value: a single number that carries the each-month label (the constructor accepts it; the form
        # is a matter of the LABEL, the shape a matter of the VALUE, and each must be preserved on its own)
        self.form, self.i = form, i
        self.series = form == " each month" and not single_value
        self.name = f"{'total' if not form else form.strip()}#{i}" + ("_label_on_a_single_value" if single_value else "")

    def inputs(self, S):
        s = settings(S)
        i, form = self.i, self.form
        ku, fu = KBASE[i % 5] + form, FBASE[i % 6] + form
        pu = FBASE[(i + 2) % 6] + form
        if self.series:
            N = S.int("N")
            S.assume(N >= 1)
            k, f, p = S.series("k", N), S.series("f", N), S.series("p", N)
            s["N"] = N
        else:
            k, f, p = S.real("k"), S.real("f"), S.real("p")
        food = S.food(k, f, p, ku, fu, pu)
        s.update(food=food, k=k, f=f, p=p, units=(ku, fu, pu))
        s["calls"] = [dict(func=self.func, args=[food, KBASE[j % 5], FBASE[j], FBASE[(j + 3) % 6]]) for j in range(6)]
        return s

    def ensures(self, S, a, res):
        form = self.form
        ku, fu, pu = a["units"]
        strip = lambda u: u.replace(" each month", "").replace(" per month", "")
        ok_vals, ok_labels, ok_shape, ok_frame = [], [], [], []
        idx = S.idx("i", a["N"]) if self.series else None
        from pyvc.values import Arr as _Arr
        at = (lambda x: x[idx]) if idx is not None else (lambda x: x)
        for j, r in enumerate(unwrap(res)):
            r = V(r)
            if idx is not None and not all(isinstance(unwrap(getattr(r, n)), (_Arr, list)) for n in ("kcals", "fat", "protein")):
                # a monthly series went in and a single value came out: the shape clause fails (and nothing else can be said)
                ok_shape.append(V(False))
                ok_vals.append(V(False))
                continue
            tk, tf, tp = KBASE[j % 5], FBASE[j], FBASE[(j + 3) % 6]
            ck = spec_multiplier("kcals", tk, a) / spec_multiplier("kcals", strip(ku), a)
            cf = spec_multiplier("fat", tf, a) / spec_multiplier("fat", strip(fu), a)
            cp = spec_multiplier("protein", tp, a) / spec_multiplier("protein", strip(pu), a)
            ok_vals.append(And(at(r.kcals) == ck * at(a["k"]), at(r.fat) == cf * at(a["f"]), at(r.protein) == cp * at(a["p"])))
            ok_labels.append(V(unwrap(r.kcals_units) == tk + form and unwrap(r.fat_units) == tf + form
                               and unwrap(r.protein_units) == tp + form
                               and unwrap(r.units) == [tk + form, tf + form, tp + form]))
            if idx is not None:
                ok_shape.append(And(V(unwrap(r.kcals).length) == a["N"], V(unwrap(r.fat).length) == a["N"],
                                    V(unwrap(r.protein).length) == a["N"]))
            else:
                from pyvc.values import Arr
                ok_shape.append(V(not isinstance(unwrap(r.kcals), (Arr, list))))
        fd = a["food"]
        ok_frame.append(And(at(fd.kcals) == at(a["k"]), at(fd.fat) == at(a["f"]), at(fd.protein) == at(a["p"]),
                            V(unwrap(fd.kcals_units) == ku and unwrap(fd.fat_units) == fu and unwrap(fd.protein_units) == pu)))
        return {
            "values_scaled_by_ratio_of_meanings": And(*ok_vals),
            "total_per_month_each_month_form_preserved": And(*ok_labels),
            "scalar_or_series_shape_preserved": And(*ok_shape),
            "operand_not_modified": And(*ok_frame),
        }


class ReducedThenConverted(Contract):
    """Two steps: a monthly series is reduced to a total (Food.get_nutrients_sum), THEN converted.  The total converts as a
    total - in_units reads the label LIST, so a reduction that renamed the three labels but left the list behind would
    send the total through the each-month branch."""
    prop = "C10"
    file = UC
    func = "UnitConversions.in_units"
    name = "a_total_obtained_from_a_monthly_series_converts_as_a_total"
    np_floats = True

    def inputs(self, S):
        s = settings(S)
        N = 3
        k, f, p = S.series("k", N), S.series("f", N), S.series("p", N)
        ku, fu, pu = KBASE[0] + " each month", FBASE[0] + " each month", FBASE[0] + " each month"
        food = S.food(k, f, p, ku, fu, pu)
        s["calls"] = [dict(file="src/food_system/food.py", func="Food.get_nutrients_sum", args=[food]),
                      dict(func=self.func, args=[Ref(0), KBASE[1], FBASE[1], FBASE[1]])]
        s.update(k=k, f=f, p=p)
        return s

    def ensures(self, S, a, res):
        r = V(unwrap(res)[1])
        tk, tf = KBASE[1], FBASE[1]
        total = lambda x: Sum([x[i] for i in range(3)])
        ck = spec_multiplier("kcals", tk, a) / spec_multiplier("kcals", KBASE[0], a)
        return {"form_of_the_total_is_total": V(unwrap(r.kcals_units) == tk and unwrap(r.fat_units) == tf and unwrap(r.protein_units) == tf
                                                  and unwrap(r.units) == [tk, tf, tf]),
                "value_is_the_converted_sum": r.kcals == ck * total(a["k"])}


class Anchors(Contract):
    prop = "C10"
    file = UC
    func = "UnitConversions.in_units_percent_fed"
    name = "anchors"

    def inputs(self, S):
        s = settings(S)
        c = s["conv"]
        food = S.food(c.billion_kcals_needed, c.thou_tons_fat_needed, c.thou_tons_protein_needed,
                      "billion kcals per month", "thousand tons per month", "thousand tons per month")
        s["calls"] = [dict(func=f"UnitConversions.{n}", args=[food]) for n in
                      ("in_units_percent_fed", "in_units_kcals_equivalent", "in_units_billions_fed",
                       "in_units_kcals_grams_grams_per_person", "in_units_bil_kcals_thou_tons_thou_tons_per_month")]
        s["food"] = food
        return s

    def ensures(self, S, a, res):
        pct, kc, bil, grams, back = [V(r) for r in unwrap(res)]
        return {
            "requirement_is_100_percent_fed": And(pct.kcals == 100, pct.fat == 100, pct.protein == 100),
            "requirement_is_daily_requirement_per_person": And(kc.kcals == a["kd"], kc.fat == a["kd"], kc.protein == a["kd"]),
            "requirement_is_population_in_billions": And(bil.kcals == a["pop"] / 10 ** 9, bil.fat == a["pop"] / 10 ** 9,
                                                         bil.protein == a["pop"] / 10 ** 9),
            "requirement_in_grams_is_daily_grams": And(grams.kcals == a["kd"], grams.fat == a["fd"], grams.protein == a["pd"]),
            "identity_conversion": And(back.kcals == a["food"].kcals, back.fat == a["food"].fat, back.protein == a["food"].protein),
        }


class Resettings(Contract):
    """The tables follow the CURRENT settings: after set_nutrition_requirements is called again with other
    values, every table and conversion reflects the new settings only (no memory of the earlier ones)."""
    prop = "C10"
    file = UC
    func = "UnitConversions.set_nutrition_requirements"
    name = "settings_changed_between_conversions"

    def inputs(self, S):
        s1 = settings(S)
        kd, fd, pd, pop = S.real("kcals_daily_2"), S.real("fat_daily_2"), S.real("protein_daily_2"), S.real("population_2")
        S.assume(And(kd > 0, fd > 0, pd > 0, pop > 0))
        conv = s1["conv"]
        food = S.food(1, 1, 1)
        anchor_units = ("billion kcals per month", "thousand tons per month", "thousand tons per month")
        s2 = dict(kd=kd, fd=fd, pd=pd, pop=pop)
        calls = [dict(func=f"UnitConversions.get_{n}_multipliers", args=[food]) for n in ("kcal", "fat", "protein")]
        calls.append(dict(func="UnitConversions.in_units_kcals_equivalent", args=[food]))
        calls.append(dict(func=self.func, args=[conv, kd, fd, pd, S.bool("include_fat_2"), S.bool("include_protein_2"), pop]))
        calls += [dict(func=f"UnitConversions.get_{n}_multipliers", args=[food]) for n in ("kcal", "fat", "protein")]
        calls.append(dict(func="UnitConversions.in_units_kcals_equivalent", args=[food]))
        return dict(calls=calls, s1=s1, s2=s2)

    def ensures(self, S, a, res):
        r = unwrap(res)
        out = {}
        for tag, s, off in (("first", a["s1"], 0), ("second", a["s2"], 5)):
            ok = []
            for nut, d, bases in (("kcals", r[off], KBASE), ("fat", r[off + 1], FBASE), ("protein", r[off + 2], FBASE)):
                for b in bases:
                    for f in FORMS:
                        ok.append(V(d[b + f]) == spec_multiplier(nut, b, s))
            eq = V(r[off + 3])
            ok.append(And(eq.kcals == spec_multiplier("kcals", "kcals per person per day", s),
                          eq.fat == spec_multiplier("fat", "effective kcals per person per day", s),
                          eq.protein == spec_multiplier("protein", "effective kcals per person per day", s)))
            out[f"tables_follow_the_{tag}_settings"] = ok
        return out


def lemmas(repo, tier, seed):
    """Round trip and transitivity for ALL pairs and triples follow from conversion = ratio of positive
    meanings (the Conversion contracts) by this algebraic lemma over arbitrary positive reals."""
    import time
    ma, mb, mc, x = z3.Reals("ma mb mc x")
    pos = [ma > 0, mb > 0, mc > 0]
    goals = {
        "C10/lemma/round_trip": ((mb / ma) * ((ma / mb) * x)) == x,
        "C10/lemma/transitivity": ((mc / mb) * ((mb / ma) * x)) == (mc / ma) * x,
        "C10/lemma/conversion_positive": mb / ma > 0,
    }
    out = []
    for name, g in goals.items():
        t0 = time.time()
        s = z3.Solver()
        s.set("timeout", 20000)
        s.add(pos)
        s.add(z3.Not(g))
        r = s.check()
        out.append({"name": name, "kind": "lemma", "status": "discharged" if r == z3.unsat else ("failed" if r == z3.sat else "unknown"),
                    "backend": "z3", "seconds": round(time.time() - t0, 3), "goal": g.sexpr(), "detail": str(r)})
    return out


CONTRACTS = ([Multipliers(n) for n in ("kcals", "fat", "protein")] + [Conversion(i) for i in range(18)]
             + [UnknownUnit(0, "kcals"), UnknownUnit(1, "tons"), UnknownUnit(2, "thousand tons each year")]
             + [InUnits(form, i) for form in FORMS for i in range(6)]
             + [InUnits(" each month", i, single_value=True) for i in (0, 3)] + [ReducedThenConverted(), Anchors(), Resettings()])
EXTRA = [lemmas]
TRUSTED = [
    "machine floats treated as mathematical reals: each identity holds exactly in R, to a few ulp in doubles",
    "the meaning of each unit name (spec_multiplier) is written from the unit names with 30-day months, as the documentation defines them",
]
NOT_DECIDED = []
ASSUMPTIONS = list(TRUSTED)
MIN_OBLIGATIONS = 100
