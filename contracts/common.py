"""Shared input builders (the valid_country_row / valid scenario constants preconditions)."""
from pyvc.spec import V, And, Or, Not, Implies, If, Abs, Min, Max, Sum, unwrap

PARAMS = "src/optimizer/parameters.py"
import os
from pyvc.values import Arr

THOROUGH = os.environ.get("VERIF_TIER") == "thorough"
HORIZONS = (48, 60, 72, 84, 96, 108, 120)


def crop_constants(S, N, better_rotation, greenhouses, outdoor=True, gh_delay=2, harvest=8, rot_delay=2,
                   expand=False, country="USA", tag="", years_to_expand=3, seasonality_as_ndarray=False):
    """constants_inputs for OutdoorCrops / Greenhouses: an open dictionary whose unlisted keys are fresh
    reals; the listed ones carry the preconditions of valid_country_row and of the scenario setters."""
    season = [S.real(f"season{m}{tag}") for m in range(12)]
    S.assume(And(*[s >= 0 for s in season]))
    S.assume(Sum(season) == 1)
    ratios = [S.real(f"ratio_year{y}{tag}") for y in range(1, 11)]
    S.assume(And(*[r >= 0 for r in ratios]))
    S.assume(ratios[0] < 101)
    base = S.real("BASELINE_CROP_KCALS" + tag)
    fat, prot = S.real("BASELINE_CROP_FAT" + tag), S.real("BASELINE_CROP_PROTEIN" + tag)
    waste_d, waste_r = S.real("WASTE_DISTRIBUTION_CROPS" + tag), S.real("WASTE_RETAIL" + tag)
    S.assume(And(base >= 0, fat >= 0, prot >= 0, waste_d >= 0, waste_d < 100, waste_r >= 0, waste_r < 100))
    expo = S.real("POWER_LAW_IMPROVEMENT" + tag)
    S.assume(And(expo > 0, expo <= 1))
    area, frac = S.real("INITIAL_GLOBAL_CROP_AREA" + tag), S.real("INITIAL_CROP_AREA_FRACTION" + tag)
    S.assume(And(area > 0, frac > 0, frac <= 1))
    mult = S.real("GREENHOUSE_AREA_MULTIPLIER" + tag)
    S.assume(And(mult >= 0, mult <= 1))
    ratio_area = S.real("RATIO_INCREASED_CROP_AREA" + tag) if expand else V(1)
    if expand:
        S.assume(ratio_area > 1)
    ents = {
        "NMONTHS": N, "COUNTRY_CODE": country,
        "BASELINE_CROP_KCALS": base, "BASELINE_CROP_FAT": fat, "BASELINE_CROP_PROTEIN": prot,
        "ADD_OUTDOOR_GROWING": outdoor, "ADD_GREENHOUSES": greenhouses,
        "OG_USE_BETTER_ROTATION": better_rotation,
        "WASTE_DISTRIBUTION": {"CROPS": unwrap(waste_d)}, "WASTE_RETAIL": waste_r,
        "SEASONALITY": (Arr(12, elems=[unwrap(s) for s in season], dtype="float") if seasonality_as_ndarray else [unwrap(s) for s in season]),
        "ROTATION_IMPROVEMENTS": {"POWER_LAW_IMPROVEMENT": unwrap(expo), "FAT_RATIO": unwrap(S.real("FAT_RATIO" + tag)),
                                  "PROTEIN_RATIO": unwrap(S.real("PROTEIN_RATIO" + tag))},
        "INITIAL_HARVEST_DURATION_IN_MONTHS": harvest,
        "DELAY": {"ROTATION_CHANGE_IN_MONTHS": rot_delay, "GREENHOUSE_MONTHS": gh_delay},
        "RATIO_INCREASED_CROP_AREA": ratio_area, "NUMBER_YEARS_TAKES_TO_REACH_INCREASED_AREA": years_to_expand,
        "INITIAL_GLOBAL_CROP_AREA": area, "INITIAL_CROP_AREA_FRACTION": frac,
        "GREENHOUSE_AREA_MULTIPLIER": mult, "GREENHOUSE_GAIN_PCT": S.real("GREENHOUSE_GAIN_PCT" + tag),
    }
    for y, r in enumerate(ratios, 1):
        ents[f"RATIO_CROPS_YEAR{y}"] = r
    d = S.opendict("constants_inputs" + tag, ents)
    return d, dict(season=season, ratios=ratios, base=base, fat=fat, prot=prot, waste_d=waste_d, waste_r=waste_r,
                   expo=expo, area=area, frac=frac, mult=mult, ratio_area=ratio_area)


def year_of_month(m):
    """Model year (1-based) of simulated month m: year 1 is May-December (8 months)."""
    return 1 if m < 8 else min(10, 2 + (m - 8) // 12)


def calendar_month(m):
    """0 = January; the simulation starts in May."""
    return (m + 4) % 12


def relabelled(contracts, prop):
    """Contracts of another property re-run under `prop` (same contract objects, own labels): used where a clause of
    one property IS another property's contract (e.g. C05's "herds never eat more grass than offered" = C07's)."""
    out = []
    for c in contracts:
        sub = type(type(c).__name__ + "_as_" + prop, (type(c),), {"prop": prop})
        o = sub.__new__(sub)
        o.__dict__.update(c.__dict__)
        out.append(o)
    return out
