"""C05 - meat and milk offered to the optimiser match the simulated herds and feed.

Function contracts on the chain from the herd simulation's lists to the optimiser's inputs:
  CalculateFeedAndMeat.get_meat_produced / get_total_milk_bearing_animals (animal_populations.py),
  MeatAndDairy.initialize_this_country_animal_kcals / calculate_meat_after_distribution_waste /
  get_max_slaughter_monthly_after_distribution_waste / get_milk_produced_postwaste (meat_and_dairy.py),
  Parameters.calculate_meat_from_feed_results / calculate_non_meat_and_dairy_from_feed_results,
  FeedAndBiofuels.create_feed_food_from_kcals,
and wiring contracts (constructors and conversion recorded) on which feed series each round's herd simulation is run on.
The re-timing of slaughter in the feed round (total preserved) and the monotone bump of the final round's feed are
C18's contracts; herds never eating more grass than offered is C07's.
"""
import ast
import os
import time
from fractions import Fraction
import z3
from pyvc.vc import Contract, Ref
from pyvc.spec import V, And, Or, Not, Implies, If, Abs, Min, Max, Sum, unwrap
from pyvc.values import Arr, Sym, Obj

AP = "src/food_system/animal_populations.py"
MD = "src/food_system/meat_and_dairy.py"
PA = "src/optimizer/parameters.py"
FB = "src/food_system/feed_and_biofuels.py"

CLASSES = ["chicken", "pig", "small", "medium", "large"]
YIELD_ATTR = {"chicken": "KCALS_PER_CHICKEN", "pig": "KCALS_PER_PIG", "small": "KCALS_PER_SMALL_ANIMAL", "medium": "KCALS_PER_MEDIUM_ANIMAL",
              "large": "KCALS_PER_LARGE_ANIMAL"}
# (animal_type, size) of the herds used: every branch of the classification, two herds in the classes that add up
HERDS = [("chicken", "small"), ("pig", "medium"), ("rabbit", "small"), ("duck", "small"), ("meat_sheep", "medium"), ("milk_goat", "medium"),
         ("meat_cattle", "large"), ("milk_cattle", "large")]


def cls_of(animal_type, size):
    return animal_type if animal_type in ("chicken", "pig") else size


def meat_and_dairy(S, symbolic_yields=True):
    """A MeatAndDairy object as far as the functions under contract read it."""
    a = {}
    for n in ("KCALS_PER_CHICKEN", "KCALS_PER_PIG", "KCALS_PER_SMALL_ANIMAL", "KCALS_PER_MEDIUM_ANIMAL", "KCALS_PER_LARGE_ANIMAL",
              "FAT_PER_CHICKEN", "FAT_PER_PIG", "FAT_PER_SMALL_ANIMAL", "FAT_PER_MEDIUM_ANIMAL", "FAT_PER_LARGE_ANIMAL",
              "PROTEIN_PER_CHICKEN", "PROTEIN_PER_PIG", "PROTEIN_PER_SMALL_ANIMAL", "PROTEIN_MEDIUM_ANIMAL", "PROTEIN_PER_LARGE_ANIMAL"):
        a[n] = x = S.real(n)
        S.assume(x >= 0)
    for n in ("MEAT_WASTE_DISTRIBUTION", "MILK_WASTE_DISTRIBUTION", "MILK_WASTE_RETAIL", "MEAT_WASTE_RETAIL"):
        a[n] = x = S.real(n)
        S.assume(And(x >= 0, x <= 100))
    a["MILK_KCALS"], a["MILK_FAT"], a["MILK_PROTEIN"] = Fraction(610), Fraction(32, 1000), Fraction(33, 1000)
    o = S.obj(MD, "MeatAndDairy", **{k: (unwrap(v) if isinstance(v, V) else v) for k, v in a.items()})
    return o, a


def herds(S, n, with_population=False):
    hs = []
    cls = S.cls(AP, "AnimalSpecies")
    for (t, size) in HERDS:
        sl = S.series("slaughter_" + t, n, nd=False)
        S.forall(n, lambda i, sl=sl: sl[i] >= 0)
        attrs = dict(animal_type=t, animal_size=size, slaughter=unwrap(sl))
        pop = None
        if with_population:
            pop = S.series("population_" + t, n, nd=False)
            attrs["population"] = unwrap(pop)
        hs.append(dict(obj=Obj(cls, attrs), type=t, size=size, slaughter=sl, population=pop))
    return hs


def class_total(hs, c, i):
    return Sum([h["slaughter"][i] for h in hs if cls_of(h["type"], h["size"]) == c])


class MeatProduced(Contract):
    """get_meat_produced: the five series handed on are, month by month, the slaughter counts of the simulated herds
    added up by class (chicken / pig / other small / other medium / large) - every herd counted exactly once."""
    prop = "C05"
    file = AP
    func = "CalculateFeedAndMeat.get_meat_produced"
    name = "slaughter_counts_by_class"
    replayable = False

    def inputs(self, S):
        n = S.int("N")
        S.assume(n >= 1)
        hs = herds(S, n)
        o = S.obj(AP, "CalculateFeedAndMeat", all_animals=[h["obj"] for h in hs])
        return dict(args=[o], hs=hs, n=n)

    def ensures(self, S, a, res):
        i = S.idx("i", a["n"])
        return {"each_class_series_is_the_sum_of_its_herds_slaughter": And(*[V(unwrap(res)[k])[i] == class_total(a["hs"], c, i)
                                                                              for k, c in enumerate(CLASSES)])}


class MilkHerd(Contract):
    prop = "C05"
    file = AP
    func = "CalculateFeedAndMeat.get_total_milk_bearing_animals"
    name = "milking_herd_is_the_sum_of_the_dairy_herds"
    replayable = False

    def inputs(self, S):
        n = S.int("N")
        S.assume(n >= 1)
        hs = herds(S, n, with_population=True)
        o = S.obj(AP, "CalculateFeedAndMeat", all_animals=[h["obj"] for h in hs])
        return dict(args=[o], hs=hs, n=n)

    def ensures(self, S, a, res):
        i = S.idx("i", a["n"])
        return {"sum_of_dairy_herd_sizes": res[i] == Sum([h["population"][i] for h in a["hs"] if "milk" in h["type"]])}


class PerHeadYields(Contract):
    """initialize_this_country_animal_kcals: energy per head = kg of meat per head x kcal per kg / 1e9 for each class,
    with the chicken / pig weights taken from this run's inputs."""
    prop = "C05"
    file = MD
    func = "MeatAndDairy.initialize_this_country_animal_kcals"
    name = "per_head_yields"
    replayable = False

    def inputs(self, S):
        a = {}
        for n in ("KG_PER_SMALL_ANIMAL", "KG_PER_MEDIUM_ANIMAL", "KG_PER_LARGE_ANIMAL", "LARGE_ANIMAL_KCALS_PER_KG", "LARGE_ANIMAL_FAT_RATIO",
                  "LARGE_ANIMAL_PROTEIN_RATIO", "SMALL_ANIMAL_KCALS_PER_KG", "SMALL_ANIMAL_FAT_RATIO", "SMALL_ANIMAL_PROTEIN_RATIO",
                  "MEDIUM_ANIMAL_KCALS_PER_KG", "MEDIUM_ANIMAL_FAT_RATIO", "MEDIUM_ANIMAL_PROTEIN_RATIO", "KG_TO_1000_TONS"):
            a[n] = S.real(n)
        o = S.obj(MD, "MeatAndDairy", **{k: unwrap(v) for k, v in a.items()})
        kc, kp = S.real("KG_MEAT_PER_CHICKEN"), S.real("KG_MEAT_PER_PIG")
        ci = S.opendict("constants_inputs", {"KG_MEAT_PER_CHICKEN": unwrap(kc), "KG_MEAT_PER_PIG": unwrap(kp)}, closed=True)
        return dict(args=[o, ci], o=o, a=a, kc=kc, kp=kp)

    def ensures(self, S, p, res):
        o, a = V(unwrap(p["o"])), p["a"]
        d = V(unwrap(p["o"]).attrs["kcals_per_head_meat_dict"])
        return {"energy_per_head_is_weight_x_energy_density": And(
            o.KCALS_PER_CHICKEN == p["kc"] * a["SMALL_ANIMAL_KCALS_PER_KG"] / 10 ** 9,
            o.KCALS_PER_PIG == p["kp"] * a["MEDIUM_ANIMAL_KCALS_PER_KG"] / 10 ** 9,
            o.KCALS_PER_SMALL_ANIMAL == a["KG_PER_SMALL_ANIMAL"] * a["SMALL_ANIMAL_KCALS_PER_KG"] / 10 ** 9,
            o.KCALS_PER_MEDIUM_ANIMAL == a["KG_PER_MEDIUM_ANIMAL"] * a["MEDIUM_ANIMAL_KCALS_PER_KG"] / 10 ** 9,
            o.KCALS_PER_LARGE_ANIMAL == a["KG_PER_LARGE_ANIMAL"] * a["LARGE_ANIMAL_KCALS_PER_KG"] / 10 ** 9),
            "dictionary_handed_to_the_herd_simulation_holds_the_same_yields": And(
                d["KCALS_PER_CHICKEN"] == o.KCALS_PER_CHICKEN, d["KCALS_PER_PIG"] == o.KCALS_PER_PIG,
                d["KCALS_PER_SMALL_ANIMAL"] == o.KCALS_PER_SMALL_ANIMAL, d["KCALS_PER_MEDIUM_ANIMAL"] == o.KCALS_PER_MEDIUM_ANIMAL,
                d["KCALS_PER_LARGE_ANIMAL"] == o.KCALS_PER_LARGE_ANIMAL)}


def meat_energy(counts, md, i=None):
    total = Sum([(counts[c] if i is None else counts[c][i]) * md[YIELD_ATTR[c]] for c in CLASSES])
    return total * (1 - md["MEAT_WASTE_DISTRIBUTION"] / 100)


class MeatAfterWaste(Contract):
    prop = "C05"
    file = MD
    func = "MeatAndDairy.calculate_meat_after_distribution_waste"
    name = "counts_x_yields_less_distribution_waste"
    np_floats = True
    merge = True

    def inputs(self, S):
        o, md = meat_and_dairy(S)
        counts = {c: S.real("n_" + c) for c in CLASSES}
        for c in CLASSES:
            S.assume(counts[c] >= 0)
        return dict(args=[o, {}] + [counts[c] for c in CLASSES], md=md, counts=counts)

    def ensures(self, S, a, res):
        kc, ff, fp = res[0], res[1], res[2]
        md, counts = a["md"], a["counts"]
        pre = Sum([counts[c] * md[YIELD_ATTR[c]] for c in CLASSES])
        fat = (counts["chicken"] * md["FAT_PER_CHICKEN"] + counts["pig"] * md["FAT_PER_PIG"] + counts["small"] * md["FAT_PER_SMALL_ANIMAL"]
               + counts["medium"] * md["FAT_PER_MEDIUM_ANIMAL"] + counts["large"] * md["FAT_PER_LARGE_ANIMAL"])
        return {"energy_is_counts_x_per_head_yields_less_distribution_waste": kc == meat_energy(counts, md),
                "fat_share_is_fat_over_energy_or_zero_without_meat": And(Implies(pre > 0, ff * pre == fat), Implies(pre <= 0, And(ff == 0, fp == 0)))}


class MonthlyMeat(Contract):
    """get_max_slaughter_monthly_after_distribution_waste: month by month the same formula (bounded horizon: the loop
    stores into a Food through Food.__setitem__, which the loop summariser does not cover)."""
    prop = "C05"
    file = MD
    func = "MeatAndDairy.get_max_slaughter_monthly_after_distribution_waste"
    np_floats = True
    merge = True
    replayable = False

    def __init__(self, n):
        self.n = n
        self.name = f"monthly_series[N={n}]"
        self.bounded = f"horizon fixed to {n} months (values symbolic)"

    def inputs(self, S):
        S.set_conversions(S.real("kd"), S.real("fd"), S.real("pd"), False, False, S.real("pop"))
        o, md = meat_and_dairy(S)
        counts = {c: S.series("n_" + c, self.n) for c in CLASSES}
        for c in CLASSES:
            S.forall(self.n, lambda i, c=c: counts[c][i] >= 0)
        return dict(args=[o, {}] + [counts[c] for c in CLASSES], md=md, counts=counts)

    def ensures(self, S, a, res):
        r = V(unwrap(res))
        ok = [r.kcals[i] == meat_energy(a["counts"], a["md"], i) for i in range(self.n)]
        return {"each_month_energy_is_counts_x_yields_less_distribution_waste": And(*ok),
                "monthly_labels": V(unwrap(res).attrs["kcals_units"] == "billion kcals each month")}


def _monthly_summary(interp, ctx, fv, args, kwargs):
    """Callee contract of get_max_slaughter_monthly_after_distribution_waste for an arbitrary horizon: what MonthlyMeat
    establishes for fixed horizons and MeatAfterWaste for one month, lifted point-wise."""
    from pyvc.spec import Spec
    S = Spec(ctx, interp)
    me = args[0]
    names = ["chickens_culled", "pigs_culled", "small_animals_nonchicken_culled", "medium_animals_nonpig_culled", "large_animals_culled"]
    series = {c: V(kwargs[nm]) for c, nm in zip(CLASSES, names)}
    n = V(unwrap(series["small"]).length)
    md = {k: V(v) for k, v in me.attrs.items()}
    ctx.counter += 1
    # the monthly energy as the formula itself (so that sums over months normalise by linearity)
    kc = V(Arr(unwrap(n), fn=lambda i: unwrap(meat_energy(series, md, V(Sym(i, "int")) if not isinstance(i, int) else i)), dtype="float"))
    zeros = V(Arr(unwrap(n), fn=lambda i: Fraction(0), dtype="float"))
    ft, pr = S.fresh_series("monthly_meat_fat", n), S.fresh_series("monthly_meat_protein", n)
    return unwrap(S.food(kc, ft, pr, "billion kcals each month", "thousand tons each month", "thousand tons each month"))


def _running(interp, ctx, food):
    """Food.get_running_total_nutrients_sum: its contract (cumulative sum) is C01's RunningTotal; here only the shape."""
    from pyvc.spec import Spec
    S = Spec(ctx, interp)
    n = V(food.attrs["kcals"].length)
    return unwrap(S.food(S.fresh_series("running_kcals", n), S.fresh_series("running_fat", n), S.fresh_series("running_protein", n),
                         food.attrs["kcals_units"], food.attrs["fat_units"], food.attrs["protein_units"]))


class MeatFromFeedResults(Contract):
    """Parameters.calculate_meat_from_feed_results for every horizon: the monthly series handed to the optimiser is the
    herds' slaughter x yields less distribution waste; the total it may eat (meat_summed_consumption) is the sum of that
    series; the running cap is its running total."""
    prop = "C05"
    file = PA
    func = "Parameters.calculate_meat_from_feed_results"
    name = "meat_offered_matches_the_herds"
    np_floats = True
    merge = True
    replayable = False
    summaries = {(MD, "MeatAndDairy.get_max_slaughter_monthly_after_distribution_waste"): _monthly_summary,
                 (MD, "MeatAndDairy.calculate_meat_nutrition"): lambda interp, ctx, fv, args, kwargs: None,
                 ("src/food_system/food.py", "Food.get_running_total_nutrients_sum"): lambda interp, ctx, fv, args, kwargs: _running(interp, ctx, args[0])}

    def inputs(self, S):
        S.set_conversions(S.real("kd"), S.real("fd"), S.real("pd"), False, False, S.real("pop"))
        n = S.int("N")
        S.assume(n >= 1)
        hs = herds(S, n)
        fm = S.obj(AP, "CalculateFeedAndMeat", all_animals=[h["obj"] for h in hs])
        o, md = meat_and_dairy(S)
        return dict(args=[S.obj(PA, "Parameters"), {}, {}, {}, o, fm], hs=hs, md=md, n=n)

    def ensures(self, S, a, res):
        consts, tc = unwrap(res)[0], unwrap(res)[1]
        i = S.idx("i", a["n"])
        hs, md = a["hs"], a["md"]
        month = V(tc["each_month_meat_slaughtered"]).kcals
        spec_i = Sum([class_total(hs, c, i) * md[YIELD_ATTR[c]] for c in CLASSES]) * (1 - md["MEAT_WASTE_DISTRIBUTION"] / 100)
        total = S.total(month)
        return {"monthly_meat_is_herd_slaughter_x_yields_less_distribution_waste": month[i] == spec_i,
                "total_meat_allowed_is_the_sum_of_the_monthly_series": V(consts["meat_summed_consumption"]) == total}


class Milk(Contract):
    prop = "C05"
    file = PA
    func = "Parameters.calculate_non_meat_and_dairy_from_feed_results"
    np_floats = True
    merge = True
    replayable = False
    summaries = {(MD, "MeatAndDairy.get_meat_nutrition"): lambda interp, ctx, fv, args, kwargs: tuple(Fraction(0) for _ in range(8))}

    def __init__(self, add_milk):
        self.add_milk = add_milk
        self.name = "milk " + ("included" if add_milk else "excluded")

    def inputs(self, S):
        n = S.int("N")
        S.assume(n >= 1)
        pop = S.series("dairy_head", n)
        S.forall(n, lambda i: pop[i] >= 0)
        o, md = meat_and_dairy(S)
        y = S.real("MILK_YIELD")
        S.assume(y >= 0)
        ci = S.opendict("constants_inputs", {"MILK_YIELD_KG_PER_MILK_BEARING_ANIMAL_PER_YEAR": unwrap(y), "ADD_MILK": self.add_milk}, closed=True)
        return dict(args=[S.obj(PA, "Parameters"), ci, {}, {}, pop, o], pop=pop, md=md, y=y, n=n)

    def ensures(self, S, a, res):
        tc = unwrap(res)[1]
        i = S.idx("i", a["n"])
        md = a["md"]
        tons = a["pop"][i] * a["y"] / 12 / 1000
        want = tons * 1000 * 610 / 10 ** 9 * (1 - md["MILK_WASTE_DISTRIBUTION"] / 100) * (1 - md["MILK_WASTE_RETAIL"] / 100)
        if self.add_milk:
            return {"milk_energy_is_milking_herd_x_yield_less_distribution_and_retail_waste": V(tc["milk_kcals"])[i] == want}
        return {"no_milk_when_milk_is_excluded": And(V(tc["milk_kcals"])[i] == 0, V(tc["milk_fat"])[i] == 0, V(tc["milk_protein"])[i] == 0)}


class FeedUsedHandedOn(Contract):
    """create_feed_food_from_kcals: the feed the herds ate is handed on unchanged (kcals), month by month."""
    prop = "C05"
    file = FB
    func = "FeedAndBiofuels.create_feed_food_from_kcals"
    name = "feed_eaten_by_the_herds_is_what_is_charged"
    np_floats = True
    replayable = False

    def inputs(self, S):
        S.set_conversions(S.real("kd"), S.real("fd"), S.real("pd"), False, False, S.real("pop"))
        n = S.int("N")
        S.assume(n >= 1)
        used = S.series("feed_used", n)
        S.forall(n, lambda i: used[i] >= 0)
        zeros = V(Arr(unwrap(n), fn=lambda i: Fraction(0), dtype="float"))
        f = S.food(used, zeros, zeros, "billion kcals each month", "thousand tons each month", "thousand tons each month")
        fr, pr = S.real("fat_ratio"), S.real("protein_ratio")
        S.assume(And(fr >= 0, pr >= 0))
        o = S.obj(FB, "FeedAndBiofuels", fat_to_kcal_ratio_feed=unwrap(fr), protein_to_kcal_ratio_feed=unwrap(pr))
        return dict(args=[o, f], used=used, n=n)

    def ensures(self, S, a, res):
        i = S.idx("i", a["n"])
        return {"kcals_unchanged": V(unwrap(res)).kcals[i] == a["used"][i]}


class RoundConversion(Contract):
    """Parameters.init_meat_and_dairy_and_feed_from_breeding - the function every round calls on its own herd
    simulation: milk offered is computed from ALL dairy herds of that simulation, meat from its slaughter lists,
    the feed handed on is the feed it used."""
    prop = "C05"
    file = PA
    func = "Parameters.init_meat_and_dairy_and_feed_from_breeding"
    name = "a_rounds_meat_milk_and_feed_come_from_its_own_herds"
    np_floats = True
    merge = True
    replayable = False
    summaries = {(MD, "MeatAndDairy.get_max_slaughter_monthly_after_distribution_waste"): _monthly_summary,
                 (MD, "MeatAndDairy.calculate_meat_nutrition"): lambda interp, ctx, fv, args, kwargs: None,
                 (MD, "MeatAndDairy.get_meat_nutrition"): lambda interp, ctx, fv, args, kwargs: tuple(Fraction(0) for _ in range(8)),
                 (PA, "Parameters.get_animal_meat_dictionary"): lambda interp, ctx, fv, args, kwargs: {},
                 ("src/food_system/food.py", "Food.get_running_total_nutrients_sum"): lambda interp, ctx, fv, args, kwargs: _running(interp, ctx, args[0])}

    def inputs(self, S):
        S.set_conversions(S.real("kd"), S.real("fd"), S.real("pd"), False, False, S.real("pop"))
        n = S.int("N")
        S.assume(n >= 1)
        hs = herds(S, n, with_population=True)
        used = S.series("feed_used", n)
        S.forall(n, lambda i: used[i] >= 0)
        zeros = lambda: V(Arr(unwrap(n), fn=lambda i: Fraction(0), dtype="float"))
        units = ("billion kcals each month", "thousand tons each month", "thousand tons each month")
        fm = S.obj(AP, "CalculateFeedAndMeat", all_animals=[h["obj"] for h in hs], feed_used=unwrap(S.food(used, zeros(), zeros(), *units)))
        o, md = meat_and_dairy(S)
        y = S.real("MILK_YIELD")
        S.assume(y >= 0)
        ci = S.opendict("constants_inputs", {"MILK_YIELD_KG_PER_MILK_BEARING_ANIMAL_PER_YEAR": unwrap(y), "ADD_MILK": True}, closed=True)
        fr, pr = S.real("fat_ratio"), S.real("protein_ratio")
        fb = S.obj(FB, "FeedAndBiofuels", fat_to_kcal_ratio_feed=unwrap(fr), protein_to_kcal_ratio_feed=unwrap(pr))
        return dict(args=[S.obj(PA, "Parameters"), ci, fm, fb, o, {}, {}], hs=hs, md=md, n=n, y=y, used=used)

    def ensures(self, S, a, res):
        feed_used, _, tc, consts = unwrap(res)
        i = S.idx("i", a["n"])
        hs, md = a["hs"], a["md"]
        dairy = Sum([h["population"][i] for h in hs if "milk" in h["type"]])
        milk = dairy * a["y"] / 12 / 1000 * 1000 * 610 / 10 ** 9 * (1 - md["MILK_WASTE_DISTRIBUTION"] / 100) * (1 - md["MILK_WASTE_RETAIL"] / 100)
        meat = Sum([class_total(hs, c, i) * md[YIELD_ATTR[c]] for c in CLASSES]) * (1 - md["MEAT_WASTE_DISTRIBUTION"] / 100)
        return {"milk_offered_is_all_dairy_herds_x_yield_less_waste": V(tc["milk_kcals"])[i] == milk,
                "meat_offered_is_herd_slaughter_x_yields_less_distribution_waste": V(tc["each_month_meat_slaughtered"]).kcals[i] == meat,
                "feed_handed_on_is_the_feed_the_herds_used": V(feed_used).kcals[i] == a["used"][i],
                "retail_waste_of_meat_handed_to_the_optimiser": V(consts["MEAT_WASTE_RETAIL"]) == md["MEAT_WASTE_RETAIL"]}


class MeatProducedTwice(Contract):
    """The object is built by the real CalculateFeedAndMeat.__init__ (the herd simulation `main` replaced by a recorder
    returning the herds) and get_meat_produced is called TWICE, as happens when the final round re-uses the no-feed
    simulation: both answers are the herds' slaughter counts by class (nothing accumulates between calls)."""
    prop = "C05"
    file = AP
    func = "CalculateFeedAndMeat.get_meat_produced"
    name = "asked_twice_same_answer"
    replayable = False

    def inputs(self, S):
        n = S.int("N")
        S.assume(n >= 1)
        hs = herds(S, n)
        self.summaries = {(AP, "main"): lambda interp, ctx, fv, args, kwargs: ([h["obj"] for h in hs], None, None)}
        calls = [dict(func="CalculateFeedAndMeat", args=["XXX", None, None, "baseline", {}]),
                 dict(func=self.func, args=[Ref(0)]), dict(func=self.func, args=[Ref(0)])]
        return dict(calls=calls, hs=hs, n=n)

    def ensures(self, S, a, res):
        i = S.idx("i", a["n"])
        r = unwrap(res)
        return {"first_answer_is_the_herds_slaughter_by_class": And(*[V(r[1][k])[i] == class_total(a["hs"], c, i) for k, c in enumerate(CLASSES)]),
                "second_answer_is_the_same": And(*[V(r[2][k])[i] == class_total(a["hs"], c, i) for k, c in enumerate(CLASSES)])}


class SecondRoundHandOff(Contract):
    """Parameters.compute_parameters_second_round: the milk offered is EXACTLY what the round's own herd conversion
    returned (no flooring / mixing with another round), the meat series is that conversion's series re-timed by
    get_second_round_kcals_with_redistributed_meat (C18) and nothing else, the feed ceiling is the feed those herds
    used.  Herd simulation, conversion, re-timing and the minimum-needs hand-off enter as recorders."""
    prop = "C05"
    file = PA
    func = "Parameters.compute_parameters_second_round"
    name = "feed_round_hands_on_its_own_herd_results"
    replayable = False
    np_floats = True

    def inputs(self, S):
        S.set_conversions(S.real("kd"), S.real("fd"), S.real("pd"), False, False, S.real("pop"))
        n = S.int("N")
        S.assume(n >= 1)
        zeros = lambda: V(Arr(unwrap(n), fn=lambda i: Fraction(0), dtype="float"))
        BK = ("billion kcals each month", "thousand tons each month", "thousand tons each month")
        KC = ("kcals per person per day each month", "effective kcals per person per day each month", "effective kcals per person per day each month")
        ser = {k: S.series(k, n) for k in ("meat1", "meat2", "milk1", "milk2", "retimed", "milk1_fat", "milk1_protein", "milk2_fat", "milk2_protein")}
        S.forall(n, lambda i: And(*[x[i] >= 0 for x in ser.values()]))
        food = lambda k, u=BK: unwrap(S.food(ser[k], zeros(), zeros(), *u))
        zero_food = lambda: unwrap(S.food(zeros(), zeros(), zeros(), *KC))
        tc1 = {"each_month_meat_slaughtered": food("meat1"), "milk_kcals": unwrap(ser["milk1"]), "milk_fat": unwrap(ser["milk1_fat"]), "milk_protein": unwrap(ser["milk1_protein"])}
        meat2 = food("meat2")
        log = self.log = {}

        def convert(interp, ctx, fv, args, kwargs):
            t2 = args[6]
            t2["each_month_meat_slaughtered"] = meat2
            t2["milk_kcals"], t2["milk_fat"], t2["milk_protein"] = unwrap(ser["milk2"]), unwrap(ser["milk2_fat"]), unwrap(ser["milk2_protein"])
            log["herds"] = args[2]
            return (("MARKER", "feed_used2"), {}, t2, args[5])

        # C18's contract of the re-timing: the total over the horizon is preserved
        S.assume(S.total(ser["retimed"]) == S.total(ser["meat2"]))

        def retime(interp, ctx, fv, args, kwargs):
            log["retime_args"] = args[1:]
            return unwrap(ser["retimed"])

        def ctor(name):
            def f(interp, ctx, fv, args, kwargs):
                log[name] = (args[1:], kwargs)
                if name == "MeatAndDairy":
                    args[0].attrs.update(human_inedible_feed=("MARKER", "grass"), kcals_per_head_meat_dict={})
                return None
            return f

        self.summaries = {
            (AP, "CalculateFeedAndMeat.__init__"): ctor("herd_simulation"),
            (MD, "MeatAndDairy.__init__"): ctor("MeatAndDairy"),
            (MD, "MeatAndDairy.initialize_this_country_animal_kcals"): lambda *a, **k: None,
            (FB, "FeedAndBiofuels.__init__"): ctor("FeedAndBiofuels"),
            (FB, "FeedAndBiofuels.get_biofuels_and_feed_from_delayed_shutoff"): lambda interp, ctx, fv, args, kwargs: (("MARKER", "biofuel_demand"), ("MARKER", "feed_demand")),
            (PA, "Parameters.init_meat_and_dairy_and_feed_from_breeding"): convert,
            (PA, "Parameters.get_second_round_kcals_with_redistributed_meat"): retime,
            (PA, "Parameters.calculate_human_consumption_for_min_needs"): lambda interp, ctx, fv, args, kwargs: ("MARKER", "min_needs"),
            ("src/food_system/food.py", "Food.get_running_total_nutrients_sum"): lambda interp, ctx, fv, args, kwargs: _running(interp, ctx, args[0]),
        }
        attrs = {}
        for f in ("cell_sugar", "outdoor_crops", "scp", "seaweed", "stored_food"):
            attrs[f + "_biofuels_kcals_equivalent"] = zero_food()
            attrs[f + "_feed_kcals_equivalent"] = zero_food()
        ir1 = S.obj("src/optimizer/interpret_results.py", "Interpreter", **attrs)
        ci = S.opendict("constants_inputs", {"COUNTRY_CODE": "XXX", "BREEDING_STRATEGY": "reduce_breeding"}, closed=True)
        return dict(args=[S.obj(PA, "Parameters"), ci, {}, tc1, ir1], ser=ser, n=n, tc1=tc1)

    def ensures(self, S, a, res):
        r = unwrap(res)
        if r[0] is None:
            return {"feed_round_hands_on_its_own_herd_results": V(False)}
        tc2, i, ser, log = r[1], S.idx("i", a["n"]), a["ser"], self.log
        ra = log.get("retime_args", [None] * 4)
        same = lambda x, y: V(x is y) if not isinstance(x, Arr) else V(x)[i] == V(y)[i]
        return {"milk_offered_is_the_feed_rounds_own": And(V(tc2["milk_kcals"])[i] == ser["milk2"][i], V(tc2["milk_fat"])[i] == ser["milk2_fat"][i],
                                                           V(tc2["milk_protein"])[i] == ser["milk2_protein"][i]),
                "meat_series_is_the_own_series_re_timed_against_the_no_feed_round": And(
                    V(tc2["each_month_meat_slaughtered"]).kcals[i] == ser["retimed"][i],
                    V(ra[0])[i] == ser["meat1"][i], V(ra[1])[i] == ser["meat2"][i]),
                "feed_ceiling_is_the_feed_its_herds_used": V(tc2.get("max_feed_that_could_be_used") == ("MARKER", "feed_used2")
                                                             and tc2.get("max_biofuel_that_could_be_used") == ("MARKER", "biofuel_demand")),
                "herds_run_on_the_demand_schedule_and_the_common_grass": V(
                    log.get("herd_simulation", ((), {}))[1].get("available_feed") == ("MARKER", "feed_demand")
                    and log.get("herd_simulation", ((), {}))[1].get("available_grass") == ("MARKER", "grass")),
                "no_feed_rounds_series_left_as_they_were": And(V(a["tc1"]["milk_kcals"])[i] == ser["milk1"][i],
                                                             V(a["tc1"]["each_month_meat_slaughtered"]).kcals[i] == ser["meat1"][i])}


class YieldsOfEveryRound(Contract):
    """Every round builds its own MeatAndDairy from the SAME constants dictionary: the per-head yields must come out
    the same each time (also with the documented large-animal weight override) and the dictionary must be left as
    it was - a constructor that consumed an entry would give later rounds different yields than the first."""
    prop = "C05"
    file = MD
    func = "MeatAndDairy"
    np_floats = True
    merge = True
    replayable = False

    def __init__(self, override):
        self.override = override
        self.name = "same yields in every round" + (" (large-animal weight overridden)" if override else "")

    def inputs(self, S):
        S.set_conversions(S.real("kd"), S.real("fd"), S.real("pd"), False, False, S.real("pop"))
        ents = {"NMONTHS": 48, "ADD_MILK": True, "ADD_MEAT": True}
        for key in ("HUMAN_INEDIBLE_FEED_BASELINE_MONTHLY", "TONS_MILK_ANNUAL", "TONS_CHICKEN_AND_PORK_ANNUAL", "TONS_BEEF_ANNUAL",
                    "INITIAL_MILK_CATTLE", "INIT_SMALL_ANIMALS", "INIT_MEDIUM_ANIMALS", "INIT_LARGE_ANIMALS_WITH_MILK_COWS", "WASTE_RETAIL",
                    "MILK_YIELD_KG_PER_MILK_BEARING_ANIMAL_PER_YEAR", "KG_MEAT_PER_PIG", "KG_MEAT_PER_CHICKEN"):
            ents[key] = unwrap(S.real(key))
        ents["WASTE_DISTRIBUTION"] = {"MEAT": unwrap(S.real("wm")), "MILK": unwrap(S.real("wmilk"))}
        for y in range(1, 11):
            r = S.real(f"RATIO_GRASSES_YEAR{y}")
            S.assume(And(r >= 0, r <= 10000))
            ents[f"RATIO_GRASSES_YEAR{y}"] = unwrap(r)
        w = None
        if self.override:
            w = S.real("kg_meat_per_large_animal")
            S.assume(w > 0)
            ents["kg_meat_per_large_animal"] = unwrap(w)
        snapshot = dict(ents)
        calls = [dict(func="MeatAndDairy", args=[ents]), dict(func="MeatAndDairy.initialize_this_country_animal_kcals", args=[Ref(0), ents]),
                 dict(func="MeatAndDairy", args=[ents]), dict(func="MeatAndDairy.initialize_this_country_animal_kcals", args=[Ref(2), ents])]
        return dict(calls=calls, ents=ents, snapshot=snapshot, w=w)

    def ensures(self, S, a, res):
        r = unwrap(res)
        m1, m2 = V(r[0]), V(r[2])
        same = [getattr(m1, n) == getattr(m2, n) for n in YIELD_ATTR.values()] + [m1.KG_PER_LARGE_ANIMAL == m2.KG_PER_LARGE_ANIMAL,
                                                                                  m1.MEAT_WASTE_DISTRIBUTION == m2.MEAT_WASTE_DISTRIBUTION]
        out = {"later_rounds_use_the_same_per_head_yields_as_the_first": And(*same),
               "constants_dictionary_left_as_it_was": V(set(a["ents"].keys()) == set(a["snapshot"].keys())
                                                        and all(a["ents"][k] is a["snapshot"][k] for k in a["snapshot"]))}
        if self.override:
            out["documented_weight_override_is_used"] = And(m1.KG_PER_LARGE_ANIMAL == a["w"],
                                                            m2.KCALS_PER_LARGE_ANIMAL == a["w"] * m2.LARGE_ANIMAL_KCALS_PER_KG / 10 ** 9)
        return out


class FirstRoundHerds(Contract):
    """The no-feed round (init_meat_and_dairy_and_feed_from_breeding_and_subtract_feed_biofuels_round1): the herd
    simulation is offered an all-zero feed series of the horizon's length and the common grass series, the SAME
    simulation object is the one whose results are converted, and the feed charged is the feed that conversion reports
    (asserted to be zero in the code).  Constructors, conversion and the demand schedule enter as recorders - however
    the calls are spelt (positional / keyword, directly or through a private helper)."""
    prop = "C05"
    file = PA
    func = "Parameters.init_meat_and_dairy_and_feed_from_breeding_and_subtract_feed_biofuels_round1"
    name = "no_feed_round_runs_its_herds_on_no_feed"
    replayable = False
    np_floats = True

    def inputs(self, S):
        S.set_conversions(S.real("kd"), S.real("fd"), S.real("pd"), False, False, S.real("pop"))
        n = S.int("N")
        S.assume(n >= 1)
        BK = ("billion kcals each month", "thousand tons each month", "thousand tons each month")
        ser = {k: S.series(k, n) for k in ("feed_demand", "biofuel_demand", "used")}
        zeros = lambda: V(Arr(unwrap(n), fn=lambda i: Fraction(0), dtype="float"))
        # C07: herds eat no more feed than they are offered - offered nothing, the conversion reports nothing used
        S.forall(n, lambda i: And(ser["used"][i] == 0, ser["feed_demand"][i] >= 0, ser["biofuel_demand"][i] >= 0))
        feed_demand = unwrap(S.food(ser["feed_demand"], zeros(), zeros(), *BK))
        biofuel_demand = unwrap(S.food(ser["biofuel_demand"], zeros(), zeros(), *BK))
        used = self.used = unwrap(S.food(ser["used"], zeros(), zeros(), *BK))
        self.schedules = (feed_demand, biofuel_demand)
        log = self.log = {}

        def ctor(name):
            def f(interp, ctx, fv, args, kwargs):
                log[name] = dict(kwargs)
                if name == "MeatAndDairy":
                    args[0].attrs.update(human_inedible_feed=("MARKER", "grass"), kcals_per_head_meat_dict={})
                return None
            return f

        def convert(interp, ctx, fv, args, kwargs):
            log["converted"] = kwargs.get("feed_meat_object")
            return (used, {}, kwargs.get("time_consts"), kwargs.get("constants_out"))

        self.summaries = {
            (AP, "CalculateFeedAndMeat.__init__"): ctor("herd_simulation"),
            (MD, "MeatAndDairy.__init__"): ctor("MeatAndDairy"),
            (MD, "MeatAndDairy.initialize_this_country_animal_kcals"): lambda *a, **k: None,
            (FB, "FeedAndBiofuels.__init__"): ctor("FeedAndBiofuels"),
            (FB, "FeedAndBiofuels.get_biofuels_and_feed_from_delayed_shutoff"): lambda interp, ctx, fv, args, kwargs: (biofuel_demand, feed_demand),
            (PA, "Parameters.init_meat_and_dairy_and_feed_from_breeding"): convert,
        }
        ci = S.opendict("constants_inputs", {"COUNTRY_CODE": "XXX", "BREEDING_STRATEGY": "reduce_breeding", "NMONTHS": unwrap(n)}, closed=True)
        return dict(args=[S.obj(PA, "Parameters"), {}, ci, {}], n=n, ser=ser)

    def ensures(self, S, a, res):
        i, log = S.idx("i", a["n"]), self.log
        sim = log.get("herd_simulation", {})
        offered = sim.get("available_feed")
        tc = unwrap(res)[1]
        if not isinstance(offered, Obj) or not isinstance(tc, dict):
            return {"herds_are_offered_an_all_zero_feed_series_of_the_horizons_length": V(False)}
        off = V(offered)
        return {"herds_are_offered_an_all_zero_feed_series_of_the_horizons_length": And(
                    V(unwrap(off.kcals).length) == a["n"], off.kcals[i] == 0, off.fat[i] == 0, off.protein[i] == 0),
                "herds_graze_the_common_grass_series": V(sim.get("available_grass") == ("MARKER", "grass")),
                "the_simulation_that_was_fed_is_the_one_converted": V(log.get("converted") is sim.get("self") and sim.get("self") is not None),
                "feed_charged_is_what_the_conversion_reports": V(tc.get("feed") is self.used),
                # the schedules every later check compares against are the scenario's delayed-shutoff schedules
                "schedules_handed_on_are_the_scenarios_delayed_shutoff_schedules": V(
                    unwrap(res)[4] is self.schedules[0] and unwrap(res)[5] is self.schedules[1])}


class FinalRoundHerds(Contract):
    """The final round (compute_parameters_third_round): its herd simulation is offered exactly the feed the feed round
    allocated (the feed round's result, expressed in billion kcals per month) and the common grass series, that same
    simulation is the one converted, and the charge starts from the feed those herds used (raised afterwards only by
    increase_biofuels_then_feed - C18).  Same set-up as C03's FinalRoundCompensation, with the constructors recording."""
    prop = "C05"
    file = PA
    func = "Parameters.compute_parameters_third_round"
    name = "final_round_runs_its_herds_on_the_feed_rounds_allocation"
    replayable = False
    np_floats = True
    merge = True

    def inputs(self, S):
        from contracts import C03
        self.base = C03.FinalRoundCompensation(True)
        a = self.base.inputs(S)
        self.summaries = dict(self.base.summaries)
        log = self.log = {}
        inner_convert = self.summaries[(PA, "Parameters.init_meat_and_dairy_and_feed_from_breeding")]

        def herd_sim(interp, ctx, fv, args, kwargs):
            log["herd_simulation"] = dict(kwargs)
            return None

        def md(interp, ctx, fv, args, kwargs):
            args[0].attrs.update(human_inedible_feed=("MARKER", "grass"), kcals_per_head_meat_dict={})
            return None

        def convert(interp, ctx, fv, args, kwargs):
            log["converted"] = kwargs.get("feed_meat_object")
            return inner_convert(interp, ctx, fv, args, kwargs)

        self.summaries[(AP, "CalculateFeedAndMeat.__init__")] = herd_sim
        self.summaries[(MD, "MeatAndDairy.__init__")] = md
        self.summaries[(PA, "Parameters.init_meat_and_dairy_and_feed_from_breeding")] = convert
        return a

    def ensures(self, S, a, res):
        i, log, ser, conv, cap = S.idx("i", a["n"]), self.log, a["ser"], a["conv"], a["captured"]
        sim = log.get("herd_simulation", {})
        offered = sim.get("available_feed")
        if not isinstance(offered, Obj) or "feed" not in cap:
            return {"herds_are_offered_what_the_feed_round_allocated": V(False)}
        # billion kcals per month <-> kcals per person per day:  x * kcals_daily * 1e9 / (kcals_monthly * population)
        # (the code shaves one part in 1e9 off, "this sometimes prevents optimization failures": never more than
        # allocated, and not less than all but a millionth of it)
        lhs, rhs = V(offered).kcals[i] * (conv.kcals_daily * 10 ** 9), ser["feed2"][i] * (conv.kcals_monthly * conv.population)
        return {"herds_are_offered_what_the_feed_round_allocated": And(lhs <= rhs, lhs >= rhs * Fraction(999999, 1000000)),
                "herds_graze_the_common_grass_series": V(sim.get("available_grass") == ("MARKER", "grass")),
                "the_simulation_that_was_fed_is_the_one_converted": V(log.get("converted") is sim.get("self") and sim.get("self") is not None),
                "charge_starts_from_the_feed_its_herds_used": V(cap["feed"])[i] == ser["feed_used3"][i]}


CONTRACTS = [MeatProduced(), MilkHerd(), PerHeadYields(), MeatAfterWaste(), MonthlyMeat(1), MonthlyMeat(3), MeatFromFeedResults(), Milk(True),
             Milk(False), FeedUsedHandedOn(), YieldsOfEveryRound(False), YieldsOfEveryRound(True), RoundConversion(), MeatProducedTwice(), SecondRoundHandOff(), FirstRoundHerds(), FinalRoundHerds()] + ([MonthlyMeat(6), MonthlyMeat(12)] if os.environ.get("VERIF_TIER") == "thorough" else [])
def _c07():
    from contracts import C07
    from contracts.common import relabelled
    return relabelled(C07.CONTRACTS, "C05")


# "the herds never eat more grass than is available": C07's feeding contracts, re-run under this property
CONTRACTS += _c07()


def _c18_retime():
    """The feed round's meat series is its own herds' series RE-TIMED: the re-timing must preserve the horizon total and
    must decline (round skipped) when feeding lowers the total - C18's contract of that helper, re-run under this
    property (SecondRoundHandOff above takes exactly this as the helper's summary)."""
    from contracts import C18
    from contracts.common import relabelled
    return relabelled([c for c in C18.CONTRACTS if type(c).__name__ == "Retime"], "C05")


CONTRACTS += _c18_retime()
EXTRA = []
TRUSTED = [
    "machine floats treated as mathematical reals",
    "get_max_slaughter_monthly_after_distribution_waste is proved month by month for fixed horizons (1 and 3) and enters calculate_meat_from_feed_results through the point-wise summary of that contract for an arbitrary horizon",
    "the herd simulation's lists are what main() returns (C06); feed and grass eaten <= offered (C07); slaughter re-timing in the feed round preserves the total and the final round's feed is only increased (C18)",
    "retail waste of meat is applied by the optimiser's meat constraint (C01), not in these functions",
    "which series each round's herds are run on is a syntactic obligation over parameters.py",
]
NOT_DECIDED = []
ASSUMPTIONS = list(TRUSTED)
MIN_OBLIGATIONS = 14
LEVEL = "proof"
