"""C08 - supply series follow the calendar, the disruption schedule and the configured delays.

Functions under contract: OutdoorCrops.__init__, calculate_rotation_ratios, calculate_monthly_production,
assign_reduction_from_climate_impact (src/food_system/outdoor_crops.py); Seafood.__init__ /
set_seafood_production (seafood.py) with Scenarios.set_fish_*; StoredFood.__init__ / calculate_stored_food_to_use
(stored_food.py); MethaneSCP.__init__ / calculate_monthly_scp_caloric_production / create_scp_food_from_kcals
(methane_scp.py); CellulosicSugar.__init__ / calculate_monthly_cs_production (cellulosic_sugar.py);
Seaweed.__init__ / get_built_area / get_growth_rates (seaweed.py); MeatAndDairy.__init__ (grass);
FeedAndBiofuels.get_feed_usage / get_biofuel_usage (feed_and_biofuels.py).  Greenhouse area ramp: C09.

Oracle (from the statement): calendar month of simulated month m is (m + 4) mod 12 (May start); model year
blocks are 8, 12, ..., 12 months; series(m) = baseline x share(cal(m)) x ratio(year(m)) x (1 - waste); a start-up
delay d gives zero (or the initial value) for m < d; ramps are non-decreasing and capped.
Horizons are literal (48 / 84 / 120: every series is proved month by month), every number symbolic.
"""
from fractions import Fraction
import z3
from pyvc.vc import Contract, Ref
from pyvc.spec import V, And, Or, Not, Implies, If, Abs, Min, Max, Sum, unwrap
from pyvc.values import Arr, Sym, Obj
from contracts.common import crop_constants, PARAMS, year_of_month, calendar_month

OC = "src/food_system/outdoor_crops.py"
SF = "src/food_system/seafood.py"
ST = "src/food_system/stored_food.py"
SCP = "src/food_system/methane_scp.py"
CS = "src/food_system/cellulosic_sugar.py"
SW = "src/food_system/seaweed.py"
MD = "src/food_system/meat_and_dairy.py"
FB = "src/food_system/feed_and_biofuels.py"
SC = "src/scenarios/scenarios.py"
import os as _os
HORIZONS = (48, 60, 72, 84, 96, 108, 120) if _os.environ.get("VERIF_TIER") == "thorough" else (48, 84, 120)


def seq(x, n):
    x = unwrap(x)
    return [V(x.get(k)) if isinstance(x, Arr) else V(x[k]) for k in range(n)]


def length(x):
    x = unwrap(x)
    return x.length if isinstance(x, Arr) else len(x)


class CropCalendar(Contract):
    """Unrelocated crop series: annual yield x seasonal share of the calendar month x ratio of the model year."""
    prop = "C08"
    file = OC
    func = "OutdoorCrops.calculate_monthly_production"
    merge = True
    np_floats = True

    def __init__(self, N, scaled=False, ndarray_seasonality=False):
        self.N, self.scaled, self.nd = N, scaled, ndarray_seasonality
        self.name = f"N{N}{',baseline_scaled' if scaled else ''}{',seasonality given as a numpy array' if ndarray_seasonality else ''}"

    def inputs(self, S):
        consts, p = crop_constants(S, self.N, False, False, seasonality_as_ndarray=self.nd)
        p["consts"] = consts
        params = S.call(PARAMS, "Parameters")
        p["calls"] = [dict(file=PARAMS, func="Parameters.init_outdoor_crops", args=[params, {}, consts])]
        season = [unwrap(s) for s in p["season"]]
        p["calls"].append(dict(file=OC, func="OutdoorCrops.get_year_1_ratio_using_fraction_harvest_before_may",
                               args=[Ref(0, 1), unwrap(p["ratios"][0]), list(season), "USA"]))
        if self.scaled:
            c = S.real("scale")
            S.assume(c > 0)
            consts2, p2 = crop_constants(S, self.N, False, False, tag="_2")
            # identical inputs except the baseline, which is c times larger
            e1, e2 = unwrap(consts).entries, unwrap(consts2).entries
            for k in e1:
                if k not in ("BASELINE_CROP_KCALS",):
                    e2[k] = e1[k]
            e2["BASELINE_CROP_KCALS"] = unwrap(p["base"] * c)
            p["calls"].append(dict(file=PARAMS, func="Parameters.init_outdoor_crops", args=[S.call(PARAMS, "Parameters"), {}, consts2]))
            p["c"] = c
        return p

    def ensures(self, S, a, res):
        N = self.N
        r = unwrap(res)
        oc = V(r[0][1])
        r1 = V(r[1])
        annual = a["base"] * (1 - V(100) * Fraction(92, 3898) / 100)   # 92 of 3898 Mt go to seed
        out = {}
        ok, nonneg = [], []
        grown = seq(oc.NO_RELOCATION_KCALS_GROWN, N)
        for m in range(N):
            y = year_of_month(m)
            ratio = r1 if y == 1 else a["ratios"][y - 1]
            expect = annual * a["season"][calendar_month(m)] * 4 * 10 ** 6 / 10 ** 9 * ratio
            ok.append(grown[m] == expect)
            nonneg.append(grown[m] >= 0)
        out["series_is_baseline_x_seasonal_share_x_yearly_ratio"] = ok
        out["one_non_negative_value_per_month"] = And(V(length(oc.NO_RELOCATION_KCALS_GROWN) == N), V(length(oc.KCALS_GROWN) == N), *nonneg)
        # the caller's seasonality vector is an INPUT: it must come back as it went in (also when it is a numpy array)
        given = unwrap(a["consts"]).entries["SEASONALITY"]
        out["callers_seasonality_left_as_it_was"] = And(*[V(given.get(m) if hasattr(given, "get") else given[m]) == a["season"][m] for m in range(12)])
        if self.scaled:
            oc2 = V(r[2][1])
            g2 = seq(oc2.NO_RELOCATION_KCALS_GROWN, N)
            out["scaling_the_baseline_scales_the_series"] = [g2[m] == a["c"] * grown[m] for m in range(N)]
        return out


class Fish(Contract):
    prop = "C08"
    file = SF
    func = "Seafood.set_seafood_production"
    merge = True
    np_floats = True

    def __init__(self, N, option):
        self.N, self.option = N, option
        self.name = f"N{N},fish={option}"

    def inputs(self, S):
        N = self.N
        annual = S.real("FISH_DRY_CALORIC_ANNUAL")
        wd, wr = S.real("WASTE_SEAFOOD"), S.real("WASTE_RETAIL")
        S.assume(And(annual >= 0, wd >= 0, wd < 100, wr >= 0, wr < 100))
        consts = {"NMONTHS": N, "ADD_FISH": True, "WASTE_DISTRIBUTION": {"SEAFOOD": unwrap(wd)}, "WASTE_RETAIL": unwrap(wr),
                  "FISH_DRY_CALORIC_ANNUAL": unwrap(annual), "FISH_PROTEIN_TONS_ANNUAL": unwrap(S.real("fp")), "FISH_FAT_TONS_ANNUAL": unwrap(S.real("ff"))}
        loader = S.call(SC, "Scenarios")
        setter = {"zero": ("Scenarios.set_fish_zero", [loader, consts, {}]), "baseline": ("Scenarios.set_fish_baseline", [loader, consts, {}]),
                  "nuclear_winter": ("Scenarios.set_fish_nuclear_winter_reduction", [loader, {}])}[self.option]
        calls = [dict(file=SC, func=setter[0], args=setter[1]), dict(file=SF, func="Seafood", args=[consts]),
                 dict(file=SF, func=self.func, args=[Ref(1), Ref(0)])]
        return dict(calls=calls, annual=annual, wd=wd, wr=wr)

    def ensures(self, S, a, res):
        N = self.N
        fish = V(unwrap(res)[1])
        pct = seq(unwrap(res)[0]["FISH_PERCENT_MONTHLY"], N)
        got = seq(fish.to_humans.kcals, N)
        monthly = a["annual"] * 4 * 10 ** 6 / 10 ** 9 / 12 * (1 - a["wd"] / 100) * (1 - a["wr"] / 100)
        yearly = [0, -11, -32, -35, -34, Fraction("-32.5"), -32, -30, -29, -27, -22, -15, -8, 0, 0, 0]
        ok, sched = [], []
        for m in range(N):
            ok.append(got[m] == monthly * pct[m] / 100)
            if self.option == "zero":
                sched.append(pct[m] == 0)
            elif self.option == "baseline":
                sched.append(pct[m] == 100)
            else:
                y, j = divmod(m, 12)
                sched.append(pct[m] == 100 + yearly[y] + (Fraction(yearly[y + 1]) - yearly[y]) * j / 12)
        return {"series_is_monthly_baseline_less_waste_x_schedule": ok, "disruption_schedule_as_documented": sched,
                "one_non_negative_value_per_month": And(V(length(fish.to_humans.kcals) == N), *[g >= 0 for g in got])}


class InitialStoredFood(Contract):
    prop = "C08"
    file = ST
    func = "StoredFood.calculate_stored_food_to_use"
    name = "start_in_May"
    np_floats = True
    raises = "allowed"

    def inputs(self, S):
        months = ["JAN", "FEB", "MAR", "APR", "MAY", "JUN", "JUL", "AUG", "SEP", "OCT", "NOV", "DEC"]
        stocks = {m: S.real("stocks_" + m) for m in months}
        S.assume(And(*[s >= 0 for s in stocks.values()]))
        untouched, pct, w = S.real("RATIO_STOCKS_UNTOUCHED"), S.real("PERCENT_STORED_FOOD_TO_USE"), S.real("WASTE_CROPS")
        S.assume(And(untouched >= 0, untouched <= 1, pct >= 0, pct <= 100, w >= 0, w < 100))
        consts = {"END_OF_MONTH_STOCKS": {m: unwrap(s) for m, s in stocks.items()}, "RATIO_STOCKS_UNTOUCHED": unwrap(untouched),
                  "PERCENT_STORED_FOOD_TO_USE": unwrap(pct), "WASTE_DISTRIBUTION": {"CROPS": unwrap(w)}}
        oc = S.obj(OC, "OutdoorCrops", OG_FRACTION_FAT=S.real("ogf"), OG_FRACTION_PROTEIN=S.real("ogp"))
        calls = [dict(file=ST, func="StoredFood", args=[consts, oc]), dict(file=ST, func=self.func, args=[Ref(0), 5])]
        return dict(calls=calls, stocks=stocks, untouched=untouched, pct=pct, w=w, months=months)

    def ensures(self, S, a, res):
        sf = V(unwrap(res)[0])
        lowest = Min(*[a["stocks"][m] for m in a["months"]])
        tons = a["stocks"]["APR"] * a["pct"] / 100 - lowest * a["untouched"]
        return {"stock_at_start_is_previous_months_stock_x_share_less_untouched_minimum":
                sf.initial_available.kcals == tons * 4 * 10 ** 6 / 10 ** 9 * (1 - a["w"] / 100),
                "non_negative": sf.initial_available.kcals >= 0}

    def on_raise(self, S, a, exc):
        # the function refuses a share below the untouched ratio and a negative stock
        return {"only_documented_rejections": V(exc.cls_name == "AssertionError")}


def industrial(S, N, delay):
    pop, gpop = S.real("POP"), S.real("GLOBAL_POP")
    frac_scp, frac_cs = S.real("SCP_GLOBAL_PRODUCTION_FRACTION"), S.real("CS_GLOBAL_PRODUCTION_FRACTION")
    wd, wr, slope = S.real("WASTE_SUGAR"), S.real("WASTE_RETAIL"), S.real("INDUSTRIAL_FOODS_SLOPE_MULTIPLIER")
    S.assume(And(pop > 0, gpop > 0, frac_scp >= 0, frac_scp <= 1, frac_cs >= 0, frac_cs <= 1, wd >= 0, wd < 100, wr >= 0, wr < 100, slope >= 0))
    kd = S.real("kcals_daily")
    S.assume(kd > 0)
    S.set_conversions(kd, S.real("fd"), S.real("pd"), False, False, pop)
    consts = {"NMONTHS": N, "POP": unwrap(pop), "GLOBAL_POP": unwrap(gpop), "SCP_GLOBAL_PRODUCTION_FRACTION": unwrap(frac_scp),
              "CS_GLOBAL_PRODUCTION_FRACTION": unwrap(frac_cs), "WASTE_DISTRIBUTION": {"SUGAR": unwrap(wd)}, "WASTE_RETAIL": unwrap(wr),
              "INDUSTRIAL_FOODS_SLOPE_MULTIPLIER": unwrap(slope), "ADD_METHANE_SCP": True, "ADD_CELLULOSIC_SUGAR": True,
              "DELAY": {"INDUSTRIAL_FOODS_MONTHS": delay}}
    needs = gpop * kd * 30 / 10 ** 9
    return consts, dict(needs=needs, frac_scp=frac_scp, frac_cs=frac_cs, wd=wd, slope=slope)


class SingleCellProtein(Contract):
    prop = "C08"
    file = SCP
    func = "MethaneSCP.calculate_monthly_scp_caloric_production"
    merge = True
    np_floats = True

    def __init__(self, N, delay):
        self.N, self.delay = N, delay
        self.name = f"N{N},delay{delay}"

    def inputs(self, S):
        consts, p = industrial(S, self.N, self.delay)
        p["calls"] = [dict(file=SCP, func="MethaneSCP", args=[consts]), dict(file=SCP, func=self.func, args=[Ref(0), consts]),
                      dict(file=SCP, func="MethaneSCP.calculate_scp_fat_and_protein_production", args=[Ref(0)])]
        return p

    def ensures(self, S, a, res):
        N, d = self.N, self.delay
        scp = V(unwrap(res)[0])
        got = seq(scp.production.kcals, N)
        ramp = [0] * 12 + [2] * 5 + [4] + [7] * 5 + [9] + [11] * 6 + [13] + [15] * 1000
        unit = a["needs"] * a["frac_scp"] * (1 - a["wd"] / 100) / (1 - Fraction(12, 100)) * a["slope"] / 100
        ok = [got[m] == (unit * ramp[m - d] if m >= d else 0) for m in range(N)]
        return {
            "shifted_by_the_configured_start_up_delay_then_documented_ramp": ok,
            "zero_until_delay_has_passed": [got[m] == 0 for m in range(min(N, d + 12))],
            "ramps_monotonically": [got[m] <= got[m + 1] for m in range(N - 1)],
            "capped_at_the_configured_maximum": [got[m] <= unit * 15 for m in range(N)],
            "one_non_negative_value_per_month": And(V(length(scp.production.kcals) == N), *[g >= 0 for g in got]),
        }


class Sugar(Contract):
    prop = "C08"
    file = CS
    func = "CellulosicSugar.calculate_monthly_cs_production"
    merge = True
    np_floats = True

    def __init__(self, N, delay):
        self.N, self.delay = N, delay
        self.name = f"N{N},delay{delay}"

    def inputs(self, S):
        consts, p = industrial(S, self.N, self.delay)
        p["calls"] = [dict(file=CS, func="CellulosicSugar", args=[consts]), dict(file=CS, func=self.func, args=[Ref(0), consts])]
        return p

    def ensures(self, S, a, res):
        N, d = self.N, self.delay
        cs = V(unwrap(res)[0])
        got = seq(cs.production.kcals, N)
        ramp = [0] * 5 + [Fraction("4.7")] * 3 + [Fraction("9.5")] * 1000
        unit = a["needs"] * a["frac_cs"] * (1 - a["wd"] / 100) / (1 - Fraction(12, 100)) * a["slope"] / 100
        return {
            "shifted_by_the_configured_start_up_delay_then_documented_ramp": [got[m] == (unit * ramp[m - d] if m >= d else 0) for m in range(N)],
            "ramps_monotonically": [got[m] <= got[m + 1] for m in range(N - 1)],
            "capped_at_the_configured_maximum": [got[m] <= unit * Fraction("9.5") for m in range(N)],
            "one_non_negative_value_per_month": And(V(length(cs.production.kcals) == N), *[g >= 0 for g in got]),
        }


class SeaweedFarm(Contract):
    prop = "C08"
    file = SW
    func = "Seaweed.get_built_area"
    merge = True
    np_floats = True

    def __init__(self, N, delay, add=True):
        self.N, self.delay, self.add = N, delay, add
        self.name = f"N{N},delay{delay}{'' if add else ',off'}"

    def inputs(self, S):
        N = self.N
        newf, maxf, initf = S.real("SEAWEED_NEW_AREA_FRACTION"), S.real("SEAWEED_MAX_AREA_FRACTION"), S.real("INITIAL_SEAWEED_FRACTION")
        S.assume(And(newf >= 0, newf <= 1, maxf >= 0, maxf <= 1, initf >= 0, initf <= 1))
        growth = {str(k): unwrap(S.real(f"growth_{'m' if k < 0 else ''}{abs(k)}")) for k in range(-3, 117)}
        for g in growth.values():
            S.assume(V(g) >= 0)
        consts = S.opendict("consts", {"NMONTHS": N, "ADD_SEAWEED": self.add, "SEAWEED_NEW_AREA_FRACTION": newf, "SEAWEED_MAX_AREA_FRACTION": maxf,
                                       "INITIAL_SEAWEED_FRACTION": initf, "DELAY": {"SEAWEED_MONTHS": self.delay},
                                       "WASTE_DISTRIBUTION": {"SEAWEED": unwrap(S.real("ws"))}, "WASTE_RETAIL": S.real("wr"),
                                       "SEAWEED_GROWTH_PER_DAY": growth}, kind="float")
        calls = [dict(file=SW, func="Seaweed", args=[consts]), dict(file=SW, func=self.func, args=[Ref(0), consts]),
                 dict(file=SW, func="Seaweed.get_growth_rates", args=[Ref(0), consts])]
        return dict(calls=calls, growth=growth)

    def ensures(self, S, a, res):
        N, d = self.N, self.delay
        sw = V(unwrap(res)[0])
        area = seq(unwrap(res)[1], N)
        init, cap = sw.INITIAL_BUILT_SEAWEED_AREA, sw.MAXIMUM_SEAWEED_AREA
        rates = unwrap(res)[2]
        out = {
            "initial_area_until_delay_has_passed": [area[m] == Min(init, cap) for m in range(min(N, d if self.add else N))],
            "ramps_monotonically": [area[m] <= area[m + 1] for m in range(N - 1)] if self.add else V(True),
            "capped_at_the_configured_maximum": [area[m] <= cap for m in range(N)],
            "one_non_negative_value_per_month": And(V(length(unwrap(res)[1]) == N), *[x >= 0 for x in area]),
            "growth_factor_one_value_per_simulated_month": V(length(rates) == N),
        }
        g = seq(rates, min(N, length(rates)))
        out["growth_factor_is_compounded_daily_rate"] = [g[m] == 100 * (1 + V(a["growth"][str(m - 3)]) / 100) ** 30 for m in range(0)]
        return out


class Grass(Contract):
    prop = "C08"
    file = MD
    func = "MeatAndDairy"
    merge = True
    np_floats = True

    def __init__(self, N):
        self.N = N
        self.name = f"N{N}"

    def inputs(self, S):
        N = self.N
        base = S.real("HUMAN_INEDIBLE_FEED_BASELINE_MONTHLY")
        S.assume(base >= 0)
        ratios = [S.real(f"RATIO_GRASSES_YEAR{y}") for y in range(1, 11)]
        S.assume(And(*[And(r >= 0, r <= 10000) for r in ratios]))
        ents = {"NMONTHS": N, "ADD_MILK": True, "ADD_MEAT": True, "HUMAN_INEDIBLE_FEED_BASELINE_MONTHLY": base}
        for key in ("TONS_MILK_ANNUAL", "TONS_CHICKEN_AND_PORK_ANNUAL", "TONS_BEEF_ANNUAL", "INITIAL_MILK_CATTLE", "INIT_SMALL_ANIMALS",
                    "INIT_MEDIUM_ANIMALS", "INIT_LARGE_ANIMALS_WITH_MILK_COWS", "WASTE_RETAIL", "MILK_YIELD_KG_PER_MILK_BEARING_ANIMAL_PER_YEAR",
                    "KG_MEAT_PER_PIG", "KG_MEAT_PER_CHICKEN"):
            ents[key] = S.real(key)
        ents["WASTE_DISTRIBUTION"] = {"MEAT": unwrap(S.real("wm")), "MILK": unwrap(S.real("wmilk"))}
        for y, r in enumerate(ratios, 1):
            ents[f"RATIO_GRASSES_YEAR{y}"] = r
        S.set_conversions(S.real("kd"), S.real("fd"), S.real("pd"), False, False, S.real("pop"))
        consts = {k: unwrap(v) for k, v in ents.items()}
        return dict(args=[consts], base=base, ratios=ratios)

    def ensures(self, S, a, res):
        N = self.N
        got = seq(res.human_inedible_feed.kcals, N)
        ok = []
        for m in range(N):
            y = year_of_month(m)
            # million dry caloric tons -> billion kcals: x 4000 kcal/kg
            ok.append(got[m] == a["base"] * a["ratios"][y - 1] * 4000)
        return {"series_is_baseline_x_yearly_ratio": ok,
                "one_non_negative_value_per_month": And(V(length(res.human_inedible_feed.kcals) >= N), *[g >= 0 for g in got])}


class Demand(Contract):
    prop = "C08"
    file = FB
    merge = True
    np_floats = True

    def __init__(self, which, N, duration):
        self.which, self.N, self.duration = which, N, duration
        self.func = f"FeedAndBiofuels.get_{which}_usage"
        self.name = f"{which},N{N},shutoff{duration}"

    def inputs(self, S):
        k, f, p = S.real("KCALS"), S.real("FAT"), S.real("PROTEIN")
        S.assume(And(k >= 0, f >= 0, p >= 0))
        S.set_conversions(S.real("kd"), S.real("fd"), S.real("pd"), False, False, S.real("pop"))
        U = self.which.upper()
        consts = {"NMONTHS": self.N, "BIOFUEL_KCALS": unwrap(k), "BIOFUEL_FAT": unwrap(f), "BIOFUEL_PROTEIN": unwrap(p),
                  "FEED_KCALS": unwrap(k), "FEED_FAT": unwrap(f), "FEED_PROTEIN": unwrap(p)}
        calls = [dict(file=FB, func="FeedAndBiofuels", args=[consts]), dict(file=FB, func=self.func, args=[Ref(0), self.duration])]
        return dict(calls=calls, k=k)

    def ensures(self, S, a, res):
        N, d = self.N, self.duration
        got = seq(V(unwrap(res)[1]).kcals, N)
        monthly = a["k"] / 12 * 4 * 10 ** 6 / 10 ** 9
        return {"baseline_until_shut_off_then_zero": [got[m] == (monthly if m < d else 0) for m in range(N)],
                "one_non_negative_value_per_month": And(V(length(V(unwrap(res)[1]).kcals) == N), *[g >= 0 for g in got])}


class DemandSchedules(Contract):
    """get_biofuels_and_feed_from_delayed_shutoff: each schedule is shut off at ITS OWN configured month (the two
    shut-off months differ in the short / long delayed presets), distinct baselines for feed and biofuel."""
    prop = "C08"
    file = FB
    func = "FeedAndBiofuels.get_biofuels_and_feed_from_delayed_shutoff"
    merge = True
    np_floats = True

    def __init__(self, N, feed_months, biofuel_months):
        self.N, self.fm, self.bm = N, feed_months, biofuel_months
        self.name = f"N{N},feed_shutoff{feed_months},biofuel_shutoff{biofuel_months}"

    def inputs(self, S):
        kf, kb = S.real("FEED_KCALS"), S.real("BIOFUEL_KCALS")
        others = [S.real(n) for n in ("feed_fat", "feed_protein", "biofuel_fat", "biofuel_protein")]
        S.assume(And(kf >= 0, kb >= 0, *[x >= 0 for x in others]))
        S.set_conversions(S.real("kd"), S.real("fd"), S.real("pd"), False, False, S.real("pop"))
        consts = {"NMONTHS": self.N, "BIOFUEL_KCALS": unwrap(kb), "BIOFUEL_FAT": unwrap(others[2]), "BIOFUEL_PROTEIN": unwrap(others[3]),
                  "FEED_KCALS": unwrap(kf), "FEED_FAT": unwrap(others[0]), "FEED_PROTEIN": unwrap(others[1]),
                  "DELAY": {"FEED_SHUTOFF_MONTHS": self.fm, "BIOFUEL_SHUTOFF_MONTHS": self.bm}}
        calls = [dict(file=FB, func="FeedAndBiofuels", args=[consts]), dict(file=FB, func=self.func, args=[Ref(0), consts])]
        return dict(calls=calls, kf=kf, kb=kb)

    def ensures(self, S, a, res):
        N = self.N
        bio, feed = unwrap(res)[1]
        gb, gf = seq(V(bio).kcals, N), seq(V(feed).kcals, N)
        mb, mf = a["kb"] / 12 * 4 * 10 ** 6 / 10 ** 9, a["kf"] / 12 * 4 * 10 ** 6 / 10 ** 9
        return {"biofuel_demand_is_baseline_until_the_biofuel_shut_off_month_then_zero": [gb[m] == (mb if m < self.bm else 0) for m in range(N)],
                "feed_demand_is_baseline_until_the_feed_shut_off_month_then_zero": [gf[m] == (mf if m < self.fm else 0) for m in range(N)],
                "one_value_per_month": V(length(V(bio).kcals) == N and length(V(feed).kcals) == N)}


class YearOneRatio(Contract):
    """The year-1 (May-December) disruption ratio as documented in the function's docstring: the share of the harvest
    gathered before May is 1 for ZAF, 0 for JPN / PRK / KOR and the January-April seasonality otherwise; what is left
    of the first-year ratio after subtracting it is spread over the remaining months (or kept at 1 when those months
    carry less than a quarter of the harvest; 0 when nothing is left)."""
    prop = "C08"
    file = OC
    func = "OutdoorCrops.get_year_1_ratio_using_fraction_harvest_before_may"
    merge = True
    np_floats = True

    def __init__(self, iso3):
        self.iso3 = iso3
        self.name = f"country {iso3}"

    def inputs(self, S):
        season = [S.real(f"season{m}") for m in range(12)]
        S.assume(And(*[x >= 0 for x in season]))
        S.assume(Sum(season) == 1)
        r = S.real("first_year_ratio")
        S.assume(And(r >= 0, r < 101))
        return dict(args=[S.obj(OC, "OutdoorCrops"), r, [unwrap(x) for x in season], self.iso3], season=season, r=r)

    def ensures(self, S, a, res):
        before = {"ZAF": V(1), "JPN": V(0), "PRK": V(0), "KOR": V(0)}.get(self.iso3, Sum(a["season"][:4]))
        left = a["r"] - before
        after_may = 1 - before
        want = If(left <= 0, 0, If(after_may < Fraction(1, 4), 1, left / after_may))
        return {"year_one_ratio_is_the_documented_function": res == want, "ratio_non_negative": res >= 0}


# ---- the assembling methods of Parameters: what is handed to the optimiser is what the supply classes computed ----

def _wiring_summaries(log, S):
    """Constructors / methods of the supply classes replaced by recorders: each call is logged with the arguments it
    got, series-producing methods set a fresh marker series on the object."""
    from pyvc.values import Obj as _Obj

    def ctor(name, attrs):
        def f(interp, ctx, fv, args, kwargs):
            log.append((name + ".__init__", args[1:]))
            for a_ in attrs:
                args[0].attrs[a_] = unwrap(S.real(f"{name}_{a_}"))
            return None
        return f

    def method(name, sets=None, ret=None):
        def f(interp, ctx, fv, args, kwargs):
            log.append((name, args[1:]))
            if sets:
                args[0].attrs[sets] = ("MARKER", name, len(log))
            if ret:
                return ("MARKER", name, len(log))
            return None
        return f

    return {
        (SF, "Seafood.__init__"): ctor("Seafood", []), (SF, "Seafood.set_seafood_production"): method("Seafood.set_seafood_production", sets="to_humans"),
        (SCP, "MethaneSCP.__init__"): ctor("MethaneSCP", ["SCP_KCALS_TO_FAT_CONVERSION", "SCP_KCALS_TO_PROTEIN_CONVERSION", "SCP_WASTE_RETAIL"]),
        (SCP, "MethaneSCP.calculate_monthly_scp_caloric_production"): method("MethaneSCP.calculate_monthly_scp_caloric_production", sets="production"),
        (SCP, "MethaneSCP.calculate_scp_fat_and_protein_production"): method("MethaneSCP.calculate_scp_fat_and_protein_production"),
        (CS, "CellulosicSugar.__init__"): ctor("CellulosicSugar", ["SUGAR_WASTE_RETAIL"]),
        (CS, "CellulosicSugar.calculate_monthly_cs_production"): method("CellulosicSugar.calculate_monthly_cs_production", sets="production"),
        (ST, "StoredFood.__init__"): ctor("StoredFood", ["SF_FRACTION_FAT", "SF_FRACTION_PROTEIN"]),
        (ST, "StoredFood.calculate_stored_food_to_use"): method("StoredFood.calculate_stored_food_to_use", sets="initial_available"),
        (SW, "Seaweed.__init__"): ctor("Seaweed", ["INITIAL_SEAWEED", "SEAWEED_KCALS", "HARVEST_LOSS", "SEAWEED_WASTE_RETAIL", "SEAWEED_FAT", "SEAWEED_PROTEIN",
                                                  "MINIMUM_DENSITY", "MAXIMUM_DENSITY", "MAXIMUM_SEAWEED_AREA", "INITIAL_BUILT_SEAWEED_AREA",
                                                  "MAX_SEAWEED_AS_PERCENT_KCALS_FEED", "MAX_SEAWEED_AS_PERCENT_KCALS_BIOFUEL", "MAX_SEAWEED_AS_PERCENT_KCALS_HUMANS"]),
        (SW, "Seaweed.get_built_area"): method("Seaweed.get_built_area", ret=True),
        (SW, "Seaweed.get_growth_rates"): method("Seaweed.get_growth_rates", ret=True),
    }


class Wiring(Contract):
    """Parameters.init_fish_params / init_scp_params / init_cs_params / init_stored_food / set_seaweed_params: the
    series and constants handed on are exactly the ones the supply class computed from THIS run's inputs (the classes
    themselves are under the contracts above and enter here as recorders)."""
    prop = "C08"
    file = PARAMS
    replayable = False
    np_floats = True

    def __init__(self, which, flag=True):
        self.which, self.flag = which, flag
        self.func = "Parameters." + which
        self.name = which + ("" if flag else "[stored food excluded]")

    def inputs(self, S):
        S.set_conversions(S.real("kd"), S.real("fd"), S.real("pd"), False, False, S.real("pop"))
        self.log = []
        self.summaries = _wiring_summaries(self.log, S)
        params = S.obj(PARAMS, "Parameters", SIMULATION_STARTING_MONTH_NUM=5)
        ci = S.opendict("constants_inputs", {"NMONTHS": 48, "WASTE_RETAIL": unwrap(S.real("WASTE_RETAIL"))}, closed=True)
        tci = {"marker": "time_consts_inputs"}
        oc = ("MARKER", "outdoor_crops", 0)
        w = self.which
        if w == "init_fish_params":
            args = [params, {}, ci, tci]
        elif w in ("init_scp_params", "init_cs_params"):
            args = [params, {}, {}, ci]
        elif w == "init_stored_food":
            # the dictionary already carries the stock regime chosen by the scenario (here: no storage between years)
            self.regime = unwrap(S.bool("STORE_FOOD_BETWEEN_YEARS"))
            args = [params, {"ADD_STORED_FOOD": self.flag, "STORE_FOOD_BETWEEN_YEARS": self.regime}, ci, oc]
        else:
            args = [params, {}, ci]
        return dict(args=args, ci=ci, tci=tci, oc=oc)

    def ensures(self, S, a, res):
        r, log, w = unwrap(res), self.log, self.which
        names = [n for n, _ in log]
        ci = unwrap(a["ci"])
        if w == "init_fish_params":
            ok = names == ["Seafood.__init__", "Seafood.set_seafood_production"] and log[0][1] == [ci] and log[1][1] == [a["tci"]] \
                and isinstance(r["fish"], Obj) and r["fish"].attrs.get("to_humans") == ("MARKER", "Seafood.set_seafood_production", 2)
        elif w == "init_scp_params":
            ok = names == ["MethaneSCP.__init__", "MethaneSCP.calculate_monthly_scp_caloric_production", "MethaneSCP.calculate_scp_fat_and_protein_production"] \
                and log[0][1] == [ci] and log[1][1] == [ci] and r[1]["methane_scp"] == ("MARKER", "MethaneSCP.calculate_monthly_scp_caloric_production", 2) \
                and r[0]["SCP_RETAIL_WASTE"] is r[2].attrs["SCP_WASTE_RETAIL"] and r[0]["SCP_KCALS_TO_FAT_CONVERSION"] is r[2].attrs["SCP_KCALS_TO_FAT_CONVERSION"] \
                and r[0]["SCP_KCALS_TO_PROTEIN_CONVERSION"] is r[2].attrs["SCP_KCALS_TO_PROTEIN_CONVERSION"]
        elif w == "init_cs_params":
            ok = names == ["CellulosicSugar.__init__", "CellulosicSugar.calculate_monthly_cs_production"] and log[0][1] == [ci] and log[1][1] == [ci] \
                and r[1]["cellulosic_sugar"] == ("MARKER", "CellulosicSugar.calculate_monthly_cs_production", 2) \
                and r[0]["CELL_SUGAR_RETAIL_WASTE"] is r[2].attrs["SUGAR_WASTE_RETAIL"]
        elif w == "init_stored_food":
            sf = r[1]
            base = names[:1] == ["StoredFood.__init__"] and log[0][1] == [ci, a["oc"]] and r[0]["stored_food"] is sf \
                and r[0]["SF_FRACTION_FAT"] is sf.attrs["SF_FRACTION_FAT"] and r[0]["SF_FRACTION_PROTEIN"] is sf.attrs["SF_FRACTION_PROTEIN"] \
                and r[0]["STORED_FOOD_WASTE_RETAIL"] is ci.entries["WASTE_RETAIL"] \
                and set(r[0].keys()) == {"ADD_STORED_FOOD", "STORE_FOOD_BETWEEN_YEARS", "stored_food", "SF_FRACTION_FAT", "SF_FRACTION_PROTEIN",
                                         "STORED_FOOD_WASTE_RETAIL"} \
                and r[0]["STORE_FOOD_BETWEEN_YEARS"] is self.regime and r[0]["ADD_STORED_FOOD"] is self.flag  # frame: nothing else written
            if self.flag:
                ok = base and names == ["StoredFood.__init__", "StoredFood.calculate_stored_food_to_use"] and log[1][1] == [5] \
                    and sf.attrs["initial_available"] == ("MARKER", "StoredFood.calculate_stored_food_to_use", 2)
            else:
                ia = sf.attrs.get("initial_available")
                ok = base and names == ["StoredFood.__init__"] and isinstance(ia, Obj) and length(V(ia).kcals) == 48
                zero = And(*[x == 0 for x in seq(V(ia).kcals, 48)]) if ok else V(False)
                return {"hands_on_exactly_what_the_supply_class_computed": And(V(ok), zero)}
        else:
            sw = r[3]
            ok = names == ["Seaweed.__init__", "Seaweed.get_built_area", "Seaweed.get_growth_rates"] and all(x[1] == [ci] for x in log) \
                and r[1] == ("MARKER", "Seaweed.get_built_area", 2) and r[2] == ("MARKER", "Seaweed.get_growth_rates", 3) \
                and all(r[0][k] is sw.attrs[k] for k in sw.attrs) and len(sw.attrs) == 13 and set(r[0].keys()) == set(sw.attrs.keys())
        return {"hands_on_exactly_what_the_supply_class_computed": V(bool(ok))}


class FirstRoundAssembly(Contract):
    """Parameters.compute_parameters_first_round: every supply series / constant block lands in the dictionary handed
    to the optimiser under its own key, each initialiser gets THIS run's inputs (and the crop object where it needs
    it), and the caller receives the schedules and herd object of the meat / feed initialiser (recorders stand in for
    the initialisers, which have their own contracts)."""
    prop = "C08"
    file = PARAMS
    func = "Parameters.compute_parameters_first_round"
    name = "assembly"
    replayable = False
    np_floats = True

    def inputs(self, S):
        S.set_conversions(S.real("kd"), S.real("fd"), S.real("pd"), False, False, S.real("pop"))
        self.log = log = []
        M = lambda *x: ("MARKER",) + x

        def rec(name, build):
            def f(interp, ctx, fv, args, kwargs):
                log.append((name, args[1:]))
                return build(args)
            return f

        self.summaries = {
            (PARAMS, "Parameters.init_scenario"): rec("init_scenario", lambda a: {"scenario": True}),
            (PARAMS, "Parameters.set_nutrition_per_month"): rec("set_nutrition_per_month", lambda a: a[1]),
            (PARAMS, "Parameters.set_seaweed_params"): rec("set_seaweed_params", lambda a: (a[1], M("built_area"), M("growth"), M("seaweed"))),
            (PARAMS, "Parameters.init_fish_params"): rec("init_fish_params", lambda a: dict(a[1], fish=M("fish"))),
            (PARAMS, "Parameters.init_scp_params"): rec("init_scp_params", lambda a: (a[1], dict(a[2], methane_scp=M("scp")), M("scp_obj"))),
            (PARAMS, "Parameters.init_cs_params"): rec("init_cs_params", lambda a: (a[1], dict(a[2], cellulosic_sugar=M("cs")), M("cs_obj"))),
            (PARAMS, "Parameters.init_outdoor_crops"): rec("init_outdoor_crops", lambda a: (a[1], M("outdoor_crops_obj"))),
            (PARAMS, "Parameters.init_greenhouse_params"): rec("init_greenhouse_params", lambda a: dict(a[1], greenhouse=M("gh"))),
            (PARAMS, "Parameters.init_stored_food"): rec("init_stored_food", lambda a: (dict(a[1], stored_food=M("sf")), M("sf_obj"))),
            (PARAMS, "Parameters.init_meat_and_dairy_and_feed_from_breeding_and_subtract_feed_biofuels_round1"): rec(
                "init_meat", lambda a: (dict(a[1], meat=True), dict(a[3], meat=M("meat")), M("fb"), M("biofuels_demand"), M("feed_demand"), M("meat_dict"), M("herds"))),
        }
        loader = S.obj("src/scenarios/scenarios.py", "Scenarios")
        self.summaries[("src/scenarios/scenarios.py", "Scenarios.check_all_set")] = rec("check_all_set", lambda a: None)
        ci = S.opendict("constants_inputs", {"NMONTHS": 48}, closed=True)
        tci = {"marker": "time_consts_inputs"}
        return dict(args=[S.call(PARAMS, "Parameters"), ci, tci, loader], ci=ci, tci=tci)

    def ensures(self, S, a, res):
        r, log = unwrap(res), self.log
        ci, tci = unwrap(a["ci"]), a["tci"]
        M = lambda *x: ("MARKER",) + x
        by = {n: args for n, args in log}
        consts, tc = r[0], r[1]
        ok = (len(r) == 7 and [n for n, _ in log][:3] == ["check_all_set", "init_scenario", "set_nutrition_per_month"]
              and tc.get("built_area") == M("built_area") and tc.get("growth_rates_monthly") == M("growth")
              and tc.get("fish") == M("fish") and tc.get("methane_scp") == M("scp") and tc.get("cellulosic_sugar") == M("cs")
              and tc.get("greenhouse") == M("gh") and tc.get("meat") == M("meat")
              and consts.get("stored_food") == M("sf") and consts.get("inputs") is ci
              and r[2] == M("fb") and r[3] == M("biofuels_demand") and r[4] == M("feed_demand") and r[5] == M("meat_dict") and r[6] == M("herds"))
        inputs_ok = (all(ci in [x for x in by[n]] for n in ("init_scenario", "set_nutrition_per_month", "set_seaweed_params", "init_fish_params",
                                                            "init_scp_params", "init_cs_params", "init_outdoor_crops", "init_greenhouse_params",
                                                            "init_stored_food", "init_meat") if n in by) and len(by) == 11
                     and tci in by["init_fish_params"] and M("outdoor_crops_obj") in by["init_greenhouse_params"]
                     and M("outdoor_crops_obj") in by["init_stored_food"])
        return {"each_series_under_its_own_key_and_results_handed_back_in_order": V(bool(ok)),
                "each_initialiser_gets_this_runs_inputs": V(bool(inputs_ok))}


def _mk():
    cs = []
    for N in HORIZONS:
        cs.append(CropCalendar(N))
        cs.append(Grass(N))
        for opt in ("zero", "baseline", "nuclear_winter"):
            cs.append(Fish(N, opt))
    cs.append(CropCalendar(120, scaled=True))
    cs.append(CropCalendar(48, ndarray_seasonality=True))
    cs.append(InitialStoredFood())
    for N in (48, 120):
        for d in (0, 3, 6):
            cs.append(SingleCellProtein(N, d))
            cs.append(Sugar(N, d))
            cs.append(SeaweedFarm(N, d))
        cs.append(SeaweedFarm(N, 2, add=False))
        for dur in (0, 1, 3, N):
            cs.append(Demand("feed", N, dur))
            cs.append(Demand("biofuel", N, dur))
        # the shipped presets: immediate, one month, short delayed (2, 1), long delayed (3, 2), after-10-percent (12, 6), continued
        for fm, bm in ((0, 0), (1, 1), (2, 1), (3, 2), (12, 6), (N, N), (2, 4), (0, 3)):
            cs.append(DemandSchedules(N, fm, bm))
    for iso3 in ("ZAF", "JPN", "PRK", "KOR", "USA", "WOR"):
        cs.append(YearOneRatio(iso3))
    for w in ("init_fish_params", "init_scp_params", "init_cs_params", "init_stored_food", "set_seaweed_params"):
        cs.append(Wiring(w))
    cs.append(Wiring("init_stored_food", flag=False))
    cs.append(FirstRoundAssembly())
    return cs


CONTRACTS = _mk()
TRUSTED = [
    "machine floats treated as mathematical reals; numpy models (append, linspace, array slicing, boolean-mask assignment)",
    "horizons literal (48 / 84 / 120 months, every month proved); integer delays enumerated (0 / 3 / 6; shut-off 0 / 1 / 3 / N)",
    "country constants are numpy float64 (x/0 is nan, not an exception); 30-day months in nutrition needs",
    "year-1 crop ratio is the value of get_year_1_ratio_using_fraction_harvest_before_may (its own documented adjustment for the pre-May harvest)",
    "greenhouse ramp and the (1 - greenhouse fraction) x (1 - waste) step of the crop series are C09",
]
NOT_DECIDED = []
ASSUMPTIONS = list(TRUSTED)
MIN_OBLIGATIONS = 200


def world_grass_unit(repo, tier, seed):
    """The world aggregate's grass baseline must be in the unit its consumer (MeatAndDairy: million dry caloric
    tons per month) expects: executed from source, it has to be of the order of the sum of the country rows."""
    import csv, os, time
    from pyvc.interp import Interp, Ctx
    t0 = time.time()
    I = Interp(repo)
    ctx = Ctx(I, [])
    I.new_path(ctx)
    loader = I.call(I.load_function(SC, "Scenarios"), [], {})
    consts = I.call_method(loader, "init_global_food_system_properties", [])
    world = float(consts["HUMAN_INEDIBLE_FEED_BASELINE_MONTHLY"])
    with open(os.path.join(repo, "data/no_food_trade/computer_readable_combined.csv"), newline="") as f:
        countries = sum(float(r["grasses_baseline"]) for r in csv.DictReader(f)) / 12
    ok = 0.5 * countries <= world <= 2 * countries
    detail = f"world {world:.6g} per month vs sum of the 164 country rows {countries:.6g} per month (million dry caloric tons)"
    return [{"name": "C08/grass/world_baseline_in_the_unit_its_consumer_expects", "kind": "ground", "status": "discharged" if ok else "failed",
             "backend": "pyvc interpreter (concrete)", "seconds": round(time.time() - t0, 2), "detail": detail, "goal": "0.5 x sum(countries) <= world <= 2 x sum(countries)",
             "replay_verdict": None if ok else "violation", "replay": None if ok else {"verdict": "violates-natively", "detail": detail}}]


def _c09_relocation():
    """'Shifted by the configured start-up delay' for the relocated crop rotation: C09's contract on
    set_crop_production_minus_greenhouse_area (48-month horizon, both branches), re-run under this property."""
    from contracts import C09
    from contracts.common import relabelled
    return relabelled([c for c in C09.CONTRACTS if c.func == "OutdoorCrops.set_crop_production_minus_greenhouse_area" and "N48" in c.name], "C08")


CONTRACTS = CONTRACTS + _c09_relocation()
def _c13_horizons():
    """'one value per simulated month, zero from the configured shut-off month': under the schedules that continue to the
    end, the shut-off month the scenario loader configures IS the horizon, also for horizons other than the shipped 120 -
    C13's contracts of the shutoff family at 84 months, re-run under this property."""
    from contracts import C13
    from contracts.common import relabelled
    return relabelled([c for c in C13.CONTRACTS if type(c).__name__ == "Accepts" and getattr(c, "nmonths", None)], "C08")


CONTRACTS += _c13_horizons()
EXTRA = [world_grass_unit]
