"""C13 - scenario options mean what they say and are applied exactly once.

Functions under contract: ScenarioRunner.set_depending_on_option, alter_scenario_if_known_to_fail
(src/scenarios/run_scenario.py); every setter of Scenarios and check_all_set (src/scenarios/scenarios.py);
ScenarioRunnerNoTrade.apply_custom_parameters (src/scenarios/run_model_no_trade.py); the head-count override
statements at the top of animal_populations.main (src/food_system/animal_populations.py).

The option strings are literal (they are the configuration space); every number in the country row is symbolic.
"""
import ast
import csv
import os
from fractions import Fraction
import z3
from pyvc.vc import Contract, Ref
from pyvc.spec import V, And, Or, Not, Implies, If, Abs, unwrap
from pyvc.values import Sym, Obj, OpenDict, Arr
from pyvc.builtins_model import deep_copy

RS = "src/scenarios/run_scenario.py"
SC = "src/scenarios/scenarios.py"
RM = "src/scenarios/run_model_no_trade.py"
AP = "src/food_system/animal_populations.py"

BASE = {
    "scale": "country", "seasonality": "country", "grasses": "country_nuclear_winter", "crop_disruption": "country_nuclear_winter",
    "scenario": "no_resilient_foods", "fish": "nuclear_winter", "waste": "baseline_in_country", "nutrition": "catastrophe",
    "intake_constraints": "enabled", "stored_food": "baseline", "ratio_stocks_untouched": "zero", "shutoff": "continued",
    "cull": "do_eat_culled", "fat": "not_required", "protein": "not_required", "meat_strategy": "reduce_breeding",
    "NMONTHS": 120,
}
# family -> values the documentation (scenarios/README.md, setter docstrings / descriptions) gives
DOCUMENTED = {
    "seasonality": ["no_seasonality", "country"],
    "grasses": ["baseline", "country_nuclear_winter", "all_crops_die_instantly"],
    "crop_disruption": ["zero", "country_nuclear_winter", "all_crops_die_instantly"],
    "scenario": ["no_resilient_foods", "all_resilient_foods", "all_resilient_foods_and_more_area", "seaweed", "methane_scp",
                 "cellulosic_sugar", "industrial_foods", "relocated_crops", "greenhouse"],
    "fish": ["zero", "baseline", "nuclear_winter"],
    "waste": ["zero", "tripled_prices_in_country", "doubled_prices_in_country", "baseline_in_country"],
    "nutrition": ["baseline", "catastrophe"],
    "intake_constraints": ["enabled", "disabled_for_humans"],
    "stored_food": ["zero", "baseline"],
    "ratio_stocks_untouched": ["zero", "baseline", "no_stored_food_between_years"],
    "shutoff": ["immediate", "short_delayed_shutoff", "long_delayed_shutoff", "continued", "continued_after_10_percent_fed"],
    "cull": ["do_eat_culled", "dont_eat_culled"],
    "fat": ["required", "not_required"],
    "protein": ["required", "not_required"],
    "meat_strategy": ["reduce_breeding", "baseline_breeding", "feed_only_ruminants"],
}
# values the loader supports beyond the README (described by the setters' own docstrings / descriptions)
ALSO_SUPPORTED = {
    "ratio_stocks_untouched": ["no_stored_between_years", "baseline_no_stored_between_years"],
    "shutoff": ["one_month_delayed_shutoff", "long_delayed_shutoff_after_10_percent_fed"],
}
# what the documentation says each value sets (constants of the returned dictionary)
MEANING = {
    ("shutoff", "immediate"): {("DELAY", "FEED_SHUTOFF_MONTHS"): 0, ("DELAY", "BIOFUEL_SHUTOFF_MONTHS"): 0, "MINIMUM_PERCENT_FED_BEFORE_NONHUMAN_CONSUMPTION_ALLOWED": 100},
    ("shutoff", "one_month_delayed_shutoff"): {("DELAY", "FEED_SHUTOFF_MONTHS"): 1, ("DELAY", "BIOFUEL_SHUTOFF_MONTHS"): 1, "MINIMUM_PERCENT_FED_BEFORE_NONHUMAN_CONSUMPTION_ALLOWED": 100},
    ("shutoff", "short_delayed_shutoff"): {("DELAY", "FEED_SHUTOFF_MONTHS"): 2, ("DELAY", "BIOFUEL_SHUTOFF_MONTHS"): 1, "MINIMUM_PERCENT_FED_BEFORE_NONHUMAN_CONSUMPTION_ALLOWED": 100},
    ("shutoff", "long_delayed_shutoff"): {("DELAY", "FEED_SHUTOFF_MONTHS"): 3, ("DELAY", "BIOFUEL_SHUTOFF_MONTHS"): 2, "MINIMUM_PERCENT_FED_BEFORE_NONHUMAN_CONSUMPTION_ALLOWED": 100},
    ("shutoff", "continued"): {("DELAY", "FEED_SHUTOFF_MONTHS"): 120, ("DELAY", "BIOFUEL_SHUTOFF_MONTHS"): 120, "MINIMUM_PERCENT_FED_BEFORE_NONHUMAN_CONSUMPTION_ALLOWED": 100},
    ("shutoff", "continued_after_10_percent_fed"): {("DELAY", "FEED_SHUTOFF_MONTHS"): 120, ("DELAY", "BIOFUEL_SHUTOFF_MONTHS"): 120, "MINIMUM_PERCENT_FED_BEFORE_NONHUMAN_CONSUMPTION_ALLOWED": 10},
    ("shutoff", "long_delayed_shutoff_after_10_percent_fed"): {("DELAY", "FEED_SHUTOFF_MONTHS"): 12, ("DELAY", "BIOFUEL_SHUTOFF_MONTHS"): 6, "MINIMUM_PERCENT_FED_BEFORE_NONHUMAN_CONSUMPTION_ALLOWED": 10},
    ("stored_food", "zero"): {"PERCENT_STORED_FOOD_TO_USE": 0, "ADD_STORED_FOOD": False},
    ("stored_food", "baseline"): {"PERCENT_STORED_FOOD_TO_USE": 100, "ADD_STORED_FOOD": True},
    ("ratio_stocks_untouched", "zero"): {"RATIO_STOCKS_UNTOUCHED": 0, "STORE_FOOD_BETWEEN_YEARS": True},
    ("ratio_stocks_untouched", "baseline"): {"RATIO_STOCKS_UNTOUCHED": 1, "STORE_FOOD_BETWEEN_YEARS": True},
    ("ratio_stocks_untouched", "no_stored_between_years"): {"RATIO_STOCKS_UNTOUCHED": 0, "STORE_FOOD_BETWEEN_YEARS": False},
    ("ratio_stocks_untouched", "no_stored_food_between_years"): {"RATIO_STOCKS_UNTOUCHED": 0, "STORE_FOOD_BETWEEN_YEARS": False},
    ("ratio_stocks_untouched", "baseline_no_stored_between_years"): {"RATIO_STOCKS_UNTOUCHED": 1, "STORE_FOOD_BETWEEN_YEARS": False},
    ("nutrition", "baseline"): {("NUTRITION", "KCALS_DAILY"): 2100, ("NUTRITION", "FAT_DAILY"): Fraction("61.7"), ("NUTRITION", "PROTEIN_DAILY"): Fraction("59.5")},
    ("nutrition", "catastrophe"): {("NUTRITION", "KCALS_DAILY"): 2100, ("NUTRITION", "FAT_DAILY"): 47, ("NUTRITION", "PROTEIN_DAILY"): 51},
    ("intake_constraints", "enabled"): {"MAX_SEAWEED_AS_PERCENT_KCALS_HUMANS": 10, "MAX_CELLULOSIC_SUGAR_AS_PERCENT_KCALS_HUMANS": 40, "MAX_METHANE_SCP_AS_PERCENT_KCALS_HUMANS": 50},
    ("intake_constraints", "disabled_for_humans"): {"MAX_SEAWEED_AS_PERCENT_KCALS_HUMANS": 100, "MAX_CELLULOSIC_SUGAR_AS_PERCENT_KCALS_HUMANS": 100, "MAX_METHANE_SCP_AS_PERCENT_KCALS_HUMANS": 100,
                                                   "MAX_SEAWEED_AS_PERCENT_KCALS_FEED": 10, "MAX_METHANE_SCP_AS_PERCENT_KCALS_FEED": 43},
    ("cull", "do_eat_culled"): {"ADD_MEAT": True, "ADD_MILK": True},
    ("cull", "dont_eat_culled"): {"ADD_MEAT": False, "ADD_MILK": False},
    ("fat", "not_required"): {"INCLUDE_FAT": False},
    ("protein", "not_required"): {"INCLUDE_PROTEIN": False},
    ("fat", "required"): {"INCLUDE_FAT": True},
    ("protein", "required"): {"INCLUDE_PROTEIN": True},
    ("meat_strategy", "reduce_breeding"): {"BREEDING_STRATEGY": "reduced"},
    ("meat_strategy", "baseline_breeding"): {"BREEDING_STRATEGY": "baseline"},
    ("meat_strategy", "feed_only_ruminants"): {"BREEDING_STRATEGY": "feed_only_ruminants"},
    ("scenario", "no_resilient_foods"): {"ADD_SEAWEED": False, "ADD_METHANE_SCP": False, "ADD_CELLULOSIC_SUGAR": False, "ADD_GREENHOUSES": False, "OG_USE_BETTER_ROTATION": False},
    ("scenario", "seaweed"): {"ADD_SEAWEED": True, "ADD_METHANE_SCP": False, "ADD_CELLULOSIC_SUGAR": False, "ADD_GREENHOUSES": False, "OG_USE_BETTER_ROTATION": False},
    ("scenario", "methane_scp"): {"ADD_SEAWEED": False, "ADD_METHANE_SCP": True, "ADD_CELLULOSIC_SUGAR": False, "ADD_GREENHOUSES": False, "OG_USE_BETTER_ROTATION": False},
    ("scenario", "cellulosic_sugar"): {"ADD_SEAWEED": False, "ADD_METHANE_SCP": False, "ADD_CELLULOSIC_SUGAR": True, "ADD_GREENHOUSES": False, "OG_USE_BETTER_ROTATION": False},
    ("scenario", "industrial_foods"): {"ADD_SEAWEED": False, "ADD_METHANE_SCP": True, "ADD_CELLULOSIC_SUGAR": True, "ADD_GREENHOUSES": False, "OG_USE_BETTER_ROTATION": False},
    ("scenario", "relocated_crops"): {"ADD_SEAWEED": False, "ADD_METHANE_SCP": False, "ADD_CELLULOSIC_SUGAR": False, "ADD_GREENHOUSES": False, "OG_USE_BETTER_ROTATION": True},
    ("scenario", "greenhouse"): {"ADD_SEAWEED": False, "ADD_METHANE_SCP": False, "ADD_CELLULOSIC_SUGAR": False, "ADD_GREENHOUSES": True, "OG_USE_BETTER_ROTATION": False},
    ("scenario", "all_resilient_foods"): {"ADD_SEAWEED": True, "ADD_METHANE_SCP": True, "ADD_CELLULOSIC_SUGAR": True, "ADD_GREENHOUSES": True, "OG_USE_BETTER_ROTATION": True, "RATIO_INCREASED_CROP_AREA": 1},
    ("scenario", "all_resilient_foods_and_more_area"): {"ADD_SEAWEED": True, "ADD_METHANE_SCP": True, "ADD_CELLULOSIC_SUGAR": True, "ADD_GREENHOUSES": True, "OG_USE_BETTER_ROTATION": True},
    ("waste", "zero"): {"WASTE_RETAIL": 0, ("WASTE_DISTRIBUTION", "CROPS"): 0, ("WASTE_DISTRIBUTION", "MEAT"): 0},
    ("crop_disruption", "zero"): {"RATIO_CROPS_YEAR1": 1, "RATIO_CROPS_YEAR5": 1, "RATIO_CROPS_YEAR10": 1},
    ("crop_disruption", "all_crops_die_instantly"): {"RATIO_CROPS_YEAR1": 0, "RATIO_CROPS_YEAR5": 0, "RATIO_CROPS_YEAR10": 0},
    ("grasses", "baseline"): {"RATIO_GRASSES_YEAR1": 1, "RATIO_GRASSES_YEAR10": 1},
    ("grasses", "all_crops_die_instantly"): {"RATIO_GRASSES_YEAR1": 0, "RATIO_GRASSES_YEAR10": 0},
}


_HEADER = []


def country_row(S):
    """A country row with the columns of the shipped table and every number symbolic."""
    if not _HEADER:
        p = os.path.join(S.I.repo, "data/no_food_trade/computer_readable_combined.csv")
        with open(p, newline="") as f:
            _HEADER.extend(next(csv.reader(f)))
    row = {"iso3": "XYZ", "country": "Xyzland"}
    for c in _HEADER:
        if c not in row:
            x = S.real("row_" + c.replace("-", "m"))
            row[c] = unwrap(x)
            # valid_country_row (discharged on the shipped table by C17's ground obligations)
            if c in ("percent_of_global_capex", "percent_of_global_production", "initial_seaweed_fraction", "new_area_fraction",
                     "max_area_fraction", "initial_built_fraction", "fraction_crop_area", "power_law_improvement") or c.startswith(
                    ("distribution_loss_", "retail_waste_")):
                S.assume(And(x >= 0, x <= 1))
            elif not c.startswith(("crop_reduction", "grasses_reduction")):
                S.assume(x >= 0)
            else:
                S.assume(x >= -1)
    from pyvc.spec import Sum
    S.assume(Sum([V(row[f"seasonality_m{i}"]) for i in range(1, 13)]) == 1)
    return row


def lookup(d, key):
    d = unwrap(d)
    if isinstance(key, tuple):
        for k in key:
            d = d[k] if isinstance(d, dict) else d.entries[k]
        return d
    return d[key] if isinstance(d, dict) else d.entries[key]


class Accepts(Contract):
    prop = "C13"
    file = RS
    func = "ScenarioRunner.set_depending_on_option"
    np_floats = True
    merge = True
    replayable = False

    def __init__(self, family, value, documented=True, nmonths=None):
        # nmonths: a horizon other than the 120 months every shipped file uses ("continued" = until the last simulated
        # month, whatever the horizon)
        self.family, self.value, self.documented, self.nmonths = family, value, documented, nmonths
        self.name = f"{family}={value}" + (f" with a horizon of {nmonths} months" if nmonths else "")

    def inputs(self, S):
        opts = dict(BASE)
        opts[self.family] = self.value
        if self.nmonths:
            opts["NMONTHS"] = self.nmonths
        snapshot = dict(opts)
        runner = S.obj(RS, "ScenarioRunner")
        return dict(args=[runner, opts, country_row(S)], opts=opts, snapshot=snapshot)

    def ensures(self, S, a, res):
        consts, time_consts, loader = unwrap(res)
        out = {"supported_value_is_accepted": V(True),
               "callers_option_dictionary_unmodified": V(a["opts"] == a["snapshot"])}
        flags = [k for k in loader.attrs if k.endswith("_SET")]
        out["every_option_family_applied"] = V(all(loader.attrs[k] is True for k in flags) and len(flags) >= 17)
        m = MEANING.get((self.family, self.value))
        if m:
            ok = []
            for key, want in m.items():
                try:
                    got = lookup(consts, key)
                except KeyError:
                    ok.append(V(False))
                    continue
                if self.nmonths and want == 120 and isinstance(key, tuple) and key[0] == "DELAY":
                    want = self.nmonths  # "continued": the shut-off month is the end of the horizon
                ok.append(V(got is want) if isinstance(want, bool) else (V(got == want) if isinstance(want, str) else V(got) == want))
            if self.nmonths:
                ok.append(V(consts.get("NMONTHS")) == self.nmonths)
            out["sets_the_documented_constants"] = And(*ok)
        return out

    def on_raise(self, S, a, exc):
        return {"supported_value_is_accepted": V(False)}


_README = {}


def readme_values(repo):
    """{family: [values]} from the 'Allowed Values' section of src/scenarios/README.md."""
    if repo in _README:
        return _README[repo]
    out, fam = {}, None
    import re as _re
    txt = open(os.path.join(repo, "src/scenarios/README.md")).read()
    sec = txt[txt.index("## Allowed Values"):]
    sec = sec[:sec.index("## Detailed Notes")] if "## Detailed Notes" in sec else sec
    for line in sec.splitlines():
        m = _re.match(r"^- \*\*(\w+)\*\*", line)
        if m:
            fam = m.group(1)
            continue
        m = _re.match(r"^\s+- `([^`]+)`", line)
        if m and fam:
            out.setdefault(fam, []).append(m.group(1))
    _README[repo] = out
    return out


# values the loader accepts that neither README nor ALSO_SUPPORTED lists, each named by its setter's own description
UNDOCUMENTED_BUT_DESCRIBED = {}


class Rejects(Contract):
    prop = "C13"
    file = RS
    func = "ScenarioRunner.set_depending_on_option"
    np_floats = True
    merge = True
    replayable = False
    raises = "allowed"

    def __init__(self, family, how):
        self.family, self.how = family, how
        self.name = f"{family}:{how}"

    def inputs(self, S):
        opts = dict(BASE)
        if self.how == "missing":
            del opts[self.family]
        elif self.how == "any_other_string":
            # EVERY string that is not one of the supported spellings (the empty string, prefixes, concatenations, ...)
            v = S.str("unsupported_value")
            supported = sorted(set(list(DOCUMENTED.get(self.family, [])) + list(ALSO_SUPPORTED.get(self.family, []))
                                   + readme_values(S.I.repo).get(self.family, []) + UNDOCUMENTED_BUT_DESCRIBED.get(self.family, [])))
            import z3 as _z3
            S.assume(V(Sym(_z3.And(*[unwrap(v).t != _z3.StringVal(x) for x in supported]), "bool")))
            opts[self.family] = unwrap(v)
        else:
            opts[self.family] = "not_an_option"
        return dict(args=[S.obj(RS, "ScenarioRunner"), opts, country_row(S)], opts=opts, snapshot=dict(opts))

    def ensures(self, S, a, res):
        return {"unknown_or_missing_option_is_rejected": V(False)}

    def on_raise(self, S, a, exc):
        return {"unknown_or_missing_option_is_rejected": V(exc.cls_name in ("AssertionError", "SystemExit", "KeyError")),
                "callers_option_dictionary_unmodified": V(a["opts"] == a["snapshot"])}


SETTERS = {  # setter -> (flag, argument kinds)
    "set_immediate_shutoff": ("NONHUMAN_CONSUMPTION_SET", "c"), "set_one_month_delayed_shutoff": ("NONHUMAN_CONSUMPTION_SET", "c"),
    "set_short_delayed_shutoff": ("NONHUMAN_CONSUMPTION_SET", "c"), "set_long_delayed_shutoff": ("NONHUMAN_CONSUMPTION_SET", "c"),
    "set_continued_feed_biofuels": ("NONHUMAN_CONSUMPTION_SET", "c"), "set_continued_after_10_percent_fed": ("NONHUMAN_CONSUMPTION_SET", "c"),
    "set_long_delayed_shutoff_after_10_percent_fed": ("NONHUMAN_CONSUMPTION_SET", "c"),
    "set_breeding_to_greatly_reduced": ("MEAT_STRATEGY_SET", "c"), "set_to_baseline_breeding": ("MEAT_STRATEGY_SET", "c"),
    "set_to_feed_only_ruminants": ("MEAT_STRATEGY_SET", "c"),
    "set_waste_to_zero": ("WASTE_SET", "c"), "set_country_waste_to_tripled_prices": ("WASTE_SET", "cd"),
    "set_country_waste_to_doubled_prices": ("WASTE_SET", "cd"), "set_country_waste_to_baseline_prices": ("WASTE_SET", "cd"),
    "set_global_waste_to_tripled_prices": ("WASTE_SET", "c"), "set_global_waste_to_doubled_prices": ("WASTE_SET", "c"),
    "set_global_waste_to_baseline_prices": ("WASTE_SET", "c"),
    "set_baseline_nutrition_profile": ("NUTRITION_PROFILE_SET", "c"), "set_catastrophe_nutrition_profile": ("NUTRITION_PROFILE_SET", "c"),
    "set_intake_constraints_to_enabled": ("INTAKE_CONSTRAINTS_SET", "c"),
    "set_intake_constraints_to_disabled_for_humans": ("INTAKE_CONSTRAINTS_SET", "c"),
    "set_no_stored_food": ("STORED_FOOD_SET", "c"), "set_baseline_stored_food": ("STORED_FOOD_SET", "c"),
    "set_stored_food_buffer_zero": ("STORED_FOOD_END_SIM_SET", "c"), "set_no_stored_food_between_years": ("STORED_FOOD_END_SIM_SET", "c"),
    "set_stored_food_buffer_as_baseline": ("STORED_FOOD_END_SIM_SET", "c"),
    "set_stored_food_buffer_as_baseline_and_no_stored_between_years": ("STORED_FOOD_END_SIM_SET", "c"),
    "set_no_seasonality": ("SEASONALITY_SET", "c"), "set_country_seasonality": ("SEASONALITY_SET", "cd"),
    "set_grasses_baseline": ("GRASSES_SET", "c"), "set_country_grasses_nuclear_winter": ("GRASSES_SET", "cd"),
    "set_country_grasses_to_zero": ("GRASSES_SET", "c"),
    "set_fish_zero": ("FISH_SET", "ct"), "set_fish_baseline": ("FISH_SET", "ct"),
    "set_disruption_to_crops_to_zero": ("DISRUPTION_SET", "c"), "set_nuclear_winter_country_disruption_to_crops": ("DISRUPTION_SET", "cd"),
    "set_zero_crops": ("DISRUPTION_SET", "c"),
    "dont_include_protein": ("PROTEIN_SET", "c"), "include_protein": ("PROTEIN_SET", "c"),
    "dont_include_fat": ("FAT_SET", "c"), "include_fat": ("FAT_SET", "c"),
    "cull_animals": ("CULLING_PARAM_SET", "c"), "dont_cull_animals": ("CULLING_PARAM_SET", "c"),
    "get_no_resilient_food_scenario": ("SCENARIO_SET", "c"), "get_seaweed_scenario": ("SCENARIO_SET", "c"),
    "get_methane_scp_scenario": ("SCENARIO_SET", "c"), "get_cellulosic_sugar_scenario": ("SCENARIO_SET", "c"),
    "get_industrial_foods_scenario": ("SCENARIO_SET", "c"), "get_relocated_crops_scenario": ("SCENARIO_SET", "c"),
    "get_greenhouse_scenario": ("SCENARIO_SET", "c"), "get_all_resilient_foods_scenario": ("SCENARIO_SET", "c"),
    "get_all_resilient_foods_and_more_area_scenario": ("SCENARIO_SET", "c"),
}
FAMILY_OF_FLAG = {}


class Setter(Contract):
    """Each setter: requires its family flag false; sets it; leaves every other flag alone; a second setter of
    the same family is refused; its writes stay inside its own family's keys."""
    prop = "C13"
    file = SC
    np_floats = True
    merge = True
    replayable = False
    raises = "allowed"

    def __init__(self, setter, second):
        self.setter, self.second = setter, second
        self.func = f"Scenarios.{setter}"
        self.name = f"{setter} then {second}"

    def _args(self, S, kinds, consts, row, tc):
        return [consts] + ([row] if "d" in kinds else []) + ([tc] if "t" in kinds else [])

    def inputs(self, S):
        loader = S.call(SC, "Scenarios")
        consts = S.opendict("constants_for_params", {"NMONTHS": 120, "DELAY": {}, "STORE_FOOD_BETWEEN_YEARS": True,
                                                     "inputs": {}, "POP": unwrap(S.real("POP")), "ROTATION_IMPROVEMENTS": {},
                                                     "WASTE_DISTRIBUTION": {}, "NUTRITION": {}}, kind="float")
        # the scale (country / global) is fixed before any family setter runs
        unwrap(loader).attrs["IS_GLOBAL_ANALYSIS"] = "global" in self.setter
        row = country_row(S)
        tc = {}
        flag, kinds = SETTERS[self.setter]
        flag2, kinds2 = SETTERS[self.second]
        before = dict(unwrap(loader).attrs)
        calls = [dict(func=f"Scenarios.{self.setter}", args=[loader] + self._args(S, kinds, consts, row, tc)),
                 dict(func=f"Scenarios.{self.second}", args=[loader] + self._args(S, kinds2, consts, row, tc))]
        return dict(calls=calls, loader=loader, consts=consts, before=before, flag=flag, flag2=flag2)

    def ensures(self, S, a, res):
        # both calls returned: only allowed when the two setters belong to different families
        same = a["flag"] == a["flag2"]
        attrs = unwrap(a["loader"]).attrs
        others = [k for k in a["before"] if k.endswith("_SET") and k not in (a["flag"], a["flag2"])]
        return {"second_setting_of_a_family_is_refused": V(not same),
                "own_flag_set_and_no_other_flag_touched": V(attrs[a["flag"]] is True and attrs[a["flag2"]] is True
                                                            and all(attrs[k] is a["before"][k] for k in others))}

    def on_raise(self, S, a, exc):
        same = a["flag"] == a["flag2"]
        attrs = unwrap(a["loader"]).attrs
        return {"second_setting_of_a_family_is_refused": V(same and exc.cls_name == "AssertionError" and attrs[a["flag"]] is True)}


class Override(Contract):
    """Each optional numeric override changes exactly the input it names: the returned constants with and
    without the override agree on every other key."""
    prop = "C13"
    file = RS
    func = "ScenarioRunner.set_depending_on_option"
    np_floats = True
    merge = True
    replayable = False

    def __init__(self, key, value, expect, rng=None, base=None):
        self.key, self.value, self.expect, self.rng, self.base = key, value, expect, rng, base or {}
        self.name = f"override {key}={value}" if rng is None else f"override {key}=<any number in [{rng[0]},{rng[1]}]>"
        if base:
            self.name += " on " + ",".join(f"{k}={v}" for k, v in base.items())

    def inputs(self, S):
        o1, o2 = dict(BASE), dict(BASE)
        o1.update(self.base)
        o2.update(self.base)
        if self.rng is None:
            o2[self.key] = self.value
        else:
            # a number as a YAML file gives it: every value of the accepted range, both ends included
            v = S.real("override_value")
            S.assume(And(v >= self.rng[0], v <= self.rng[1]))
            o2[self.key] = unwrap(v)
            self.sym_value = v
        row = country_row(S)
        r1, r2 = S.obj(RS, "ScenarioRunner"), S.obj(RS, "ScenarioRunner")
        return dict(calls=[dict(func=self.func, args=[r1, o1, row]), dict(func=self.func, args=[r2, o2, dict(row)])])

    def ensures(self, S, a, res):
        c1, c2 = unwrap(res)[0][0], unwrap(res)[1][0]
        changed = self.expect(c1) if self.rng is None else self.expect(c1, self.sym_value)
        out = {}
        keys = set(c1) | set(c2)
        same = []
        for k in sorted(keys, key=str):
            if k in changed:
                continue
            if k not in c1 or k not in c2:
                same.append(V(False))
                continue
            same.append(V(S.I.truth(S.I.compare(ast.Eq(), c1[k], c2[k]))))
        out["nothing_else_changed"] = And(*same)
        # two set-ups in one process must not SHARE a mutable constant (a nested dictionary or list): a later set-up
        # writing its delays would rewrite the constants an earlier one returned (template copied shallowly)
        shared = [k for k in keys if k in c1 and k in c2 and isinstance(c1[k], (dict, list)) and c1[k] is c2[k]]
        out["set_ups_share_no_mutable_constant"] = V(not shared)
        got = []
        for k, want in changed.items():
            got.append(V(k in c2) if want is None else (V(c2.get(k)) == want if k in c2 else V(False)))
        out["named_input_changed_as_documented"] = And(*got)
        return out


def crop_mult(c1):
    # the crop series has an eleventh entry (the tail of year 10) which scales with the rest
    return {f"RATIO_CROPS_YEAR{y}": V(c1[f"RATIO_CROPS_YEAR{y}"]) * 2 for y in range(1, 12) if f"RATIO_CROPS_YEAR{y}" in c1}


def grass_mult(c1):
    return {f"RATIO_GRASSES_YEAR{y}": V(c1[f"RATIO_GRASSES_YEAR{y}"]) * Fraction(1, 2) for y in range(1, 11)}


def species_columns(repo):
    p = os.path.join(repo, "data/no_food_trade/animal_feed_data/FAOSTAT_head_and_slaughter.csv")
    with open(p, newline="") as f:
        header = next(csv.reader(f))
    return [c for c in header if c.endswith("_head")]


def head_override_columns(repo, tier, seed):
    """animal_populations.main: an override '<species>_head_start' must land in the stock table's '<species>_head'
    column - for every species column of FAOSTAT_head_and_slaughter.csv.  The override statements at the top of
    main() are located in its AST and executed by the interpreter against a table that records .loc writes."""
    import time
    from pyvc.interp import Interp, Ctx, PyExc, Env
    from pyvc.values import Native
    t0 = time.time()
    I = Interp(repo)
    ctx = Ctx(I, [])
    I.new_path(ctx)
    mod = I.import_module("src.food_system.animal_populations")
    fn = mod.ns["main"]
    I.func_info(fn)
    block = None
    # the block of main() that applies the overrides: an `if` on constants_inputs that - itself or through module-level
    # helper functions it calls - writes the stock table through .loc
    from pyvc.values import FuncVal
    helpers = {n: v.node for n, v in mod.ns.items() if isinstance(v, FuncVal) and isinstance(getattr(v, "node", None), ast.FunctionDef) and n != "main"}

    def text(n, depth=0):
        out = [ast.unparse(n)]
        if depth < 3:
            for c in ast.walk(n):
                if isinstance(c, ast.Call) and isinstance(c.func, ast.Name) and c.func.id in helpers:
                    out.append(text(helpers[c.func.id], depth + 1))
        return "\n".join(out)

    for st in fn.node.body:
        if isinstance(st, ast.If) and "constants_inputs" in ast.unparse(st.test) and ".loc[" in text(st) and "df_animal_stock_info" in ast.unparse(st):
            block = st
    out = []
    if block is None:
        return [{"name": "C13/head_count_override/column_written_is_the_species_column", "kind": "structural", "status": "error",
                 "detail": "override block not found in main()", "backend": "pyvc", "seconds": 0}]
    cols = species_columns(repo)
    wrong = []
    for c in cols:
        writes = []

        class Loc:
            pass
        table = Obj(__import__("pyvc.values", fromlist=["ClassVal"]).ClassVal("DataFrame", [], {}, None), {})

        class LocVal:
            pass
        loc = LocVal()
        table.attrs["loc"] = loc
        prev = I.extra_attr
        env = Env(None, mod, func=fn)
        env.vars.update({"constants_inputs": {c + "_start": 1234, "NMONTHS": 120}, "country_code": "XYZ", "df_animal_stock_info": table})
        real_set = I.set_item

        def set_item(obj, key, v, real_set=real_set, writes=writes, loc=loc):
            if obj is loc:
                writes.append((key, v))
                return
            return real_set(obj, key, v)

        I.set_item = set_item
        try:
            I.exec_stmt(block, env)
        finally:
            I.set_item = real_set
        if writes != [(("XYZ", c), 1234)]:
            wrong.append((c + "_start", writes))
    ok = not wrong
    out.append({"name": "C13/head_count_override/column_written_is_the_species_column", "kind": "ground", "status": "discharged" if ok else "failed",
                "backend": "pyvc interpreter (concrete, exhaustive over the CSV header)", "seconds": round(time.time() - t0, 2),
                "detail": f"{len(cols)} species columns; wrong: {wrong[:6]}", "goal": "forall species column c. override c_start writes column c",
                "replay_verdict": None if ok else "violation",
                "replay": None if ok else {"verdict": "violates-natively", "detail": str(wrong[:8]),
                                           "native": [(k, k.strip('_start')) for k, _ in wrong]}})
    return out


def _mk():
    cs = []
    for fam, vals in DOCUMENTED.items():
        for v in vals:
            cs.append(Accepts(fam, v))
    for fam, vals in ALSO_SUPPORTED.items():
        for v in vals:
            cs.append(Accepts(fam, v, documented=False))
    for fam in list(DOCUMENTED) + ["scale"]:
        cs.append(Rejects(fam, "unknown"))
        cs.append(Rejects(fam, "missing"))
        cs.append(Rejects(fam, "any_other_string"))
    names = list(SETTERS)
    by_flag = {}
    for n in names:
        by_flag.setdefault(SETTERS[n][0], []).append(n)
    for n in names:
        fam = by_flag[SETTERS[n][0]]
        # every setter followed by itself and by the next setter of its family (must be refused) ...
        cs.append(Setter(n, n))
        nxt = fam[(fam.index(n) + 1) % len(fam)]
        if nxt != n:
            cs.append(Setter(n, nxt))
    # ... and by a setter of another family (must be accepted, flags independent)
    flags = list(by_flag)
    for i, fl in enumerate(flags):
        cs.append(Setter(by_flag[fl][0], by_flag[flags[(i + 1) % len(flags)]][0]))
    cs.append(Override("MINIMUM_PERCENT_FED_BEFORE_NONHUMAN_CONSUMPTION_ALLOWED", "35", lambda c1: {"MINIMUM_PERCENT_FED_BEFORE_NONHUMAN_CONSUMPTION_ALLOWED": 35}))
    # the configured minimum share wins over the schedule's own default under EVERY schedule (also the two that set 10)
    for sh in DOCUMENTED["shutoff"] + ALSO_SUPPORTED.get("shutoff", []):
        if sh != BASE["shutoff"]:
            cs.append(Override("MINIMUM_PERCENT_FED_BEFORE_NONHUMAN_CONSUMPTION_ALLOWED", None,
                               lambda c1, v: {"MINIMUM_PERCENT_FED_BEFORE_NONHUMAN_CONSUMPTION_ALLOWED": v}, rng=(0, 100), base={"shutoff": sh}))
    # horizons other than 120 months
    for sh in DOCUMENTED["shutoff"] + ALSO_SUPPORTED.get("shutoff", []):
        cs.append(Accepts("shutoff", sh, nmonths=84))
    cs.append(Override("RATIO_STOCKS_UNTOUCHED", "0.25", lambda c1: {"RATIO_STOCKS_UNTOUCHED": Fraction(1, 4)}))
    cs.append(Override("kg_meat_per_large_animal", "250", lambda c1: {"kg_meat_per_large_animal": 250}))
    cs.append(Override("CROP_PRODUCTION_MULTIPLIER", "2", crop_mult))
    cs.append(Override("GRASSES_PRODUCTION_MULTIPLIER", "0.5", grass_mult))
    cs.append(Override("MINIMUM_PERCENT_FED_BEFORE_NONHUMAN_CONSUMPTION_ALLOWED", None,
                       lambda c1, v: {"MINIMUM_PERCENT_FED_BEFORE_NONHUMAN_CONSUMPTION_ALLOWED": v}, rng=(0, 100)))
    cs.append(Override("RATIO_STOCKS_UNTOUCHED", None, lambda c1, v: {"RATIO_STOCKS_UNTOUCHED": v}, rng=(0, 1)))
    cs.append(Override("RATIO_STOCKS_UNTOUCHED", None, lambda c1, v: {"RATIO_STOCKS_UNTOUCHED": v}, rng=(0, 1),
                       base={"ratio_stocks_untouched": "baseline"}))
    cs.append(Override("CROP_PRODUCTION_MULTIPLIER", None, lambda c1, v: {
        f"RATIO_CROPS_YEAR{y}": V(c1[f"RATIO_CROPS_YEAR{y}"]) * v for y in range(1, 12) if f"RATIO_CROPS_YEAR{y}" in c1}, rng=(0, 10)))
    cs.append(Override("GRASSES_PRODUCTION_MULTIPLIER", None, lambda c1, v: {
        f"RATIO_GRASSES_YEAR{y}": V(c1[f"RATIO_GRASSES_YEAR{y}"]) * v for y in range(1, 11)}, rng=(0, 10)))
    # every species whose head count can be overridden: the *_head columns of the shipped stock table (the table the
    # override is written into), read from the tree under check
    try:
        species = [c[: -len("_head")] for c in species_columns(os.environ.get("REPO", "/repo"))]
    except OSError:
        species = []
    for sp in species or ("milk_cattle", "asses", "turkey", "rabbit", "chicken"):
        cs.append(Override(f"{sp}_head", "1234", lambda c1, sp=sp: {f"{sp}_head_start": 1234}))
    return cs


class CustomParameters(Contract):
    """ScenarioRunnerNoTrade.apply_custom_parameters: only keys that name a column of the country row (or the
    meat-per-large-animal key) are written, each to float(value); the options are not modified."""
    prop = "C13"
    file = RM
    func = "ScenarioRunnerNoTrade.apply_custom_parameters"
    name = "row_overrides"
    replayable = False

    def inputs(self, S):
        row = {"iso3": "XYZ", "population": unwrap(S.real("population")), "crop_kcals": unwrap(S.real("crop_kcals"))}
        opts = dict(BASE)
        opts["crop_kcals"] = "5"
        opts["kg_meat_per_large_animal"] = "250"
        return dict(args=[S.obj(RM, "ScenarioRunnerNoTrade"), row, opts], row=row, pop=row["population"], opts=opts, snapshot=dict(opts))

    def ensures(self, S, a, res):
        r = unwrap(res)
        return {"named_columns_overridden_and_nothing_else": And(V(r["crop_kcals"]) == 5, V(r["kg_meat_per_large_animal"]) == 250,
                                                                 V(r["population"] is a["pop"]), V(sorted(r.keys()) == ["crop_kcals", "iso3", "kg_meat_per_large_animal", "population"])),
                "callers_option_dictionary_unmodified": V(a["opts"] == a["snapshot"])}


class KnownToFail(Contract):
    """ScenarioRunner.alter_scenario_if_known_to_fail: for EVERY country code and every value of the option
    families it inspects (symbolic strings), the caller's dictionary is left as it was, the returned dictionary is a
    different object, and it differs from the caller's at most in 'shutoff' (set to 'immediate')."""
    prop = "C13"
    file = RS
    func = "ScenarioRunner.alter_scenario_if_known_to_fail"
    name = "known_failure_patch_is_applied_to_a_copy"
    max_paths = 4000

    KEYS = ("cull", "scenario", "shutoff", "crop_disruption", "meat_strategy", "ratio_stocks_untouched")

    def inputs(self, S):
        opts = dict(BASE)
        for k in self.KEYS:
            opts[k] = unwrap(S.str("opt_" + k))
        snapshot = dict(opts)
        iso3 = S.str("iso3")
        return dict(args=[S.obj(RS, "ScenarioRunner"), opts, iso3], opts=opts, snapshot=snapshot)

    def ensures(self, S, a, res):
        import ast as _ast
        r = unwrap(res)
        I = S.I
        same_keys = isinstance(r, dict) and set(r.keys()) == set(a["snapshot"].keys())
        others = []
        if same_keys:
            for k, v in a["snapshot"].items():
                if k == "shutoff":
                    others.append(Or(V(I.truth(I.compare(_ast.Eq(), r[k], v))), V(I.truth(I.compare(_ast.Eq(), r[k], "immediate")))))
                else:
                    others.append(V(I.truth(I.compare(_ast.Eq(), r[k], v))))
        unmod = [V(set(a["opts"].keys()) == set(a["snapshot"].keys()))]
        if unmod[0].v:
            unmod += [V(I.truth(I.compare(_ast.Eq(), a["opts"][k], a["snapshot"][k]))) for k in a["snapshot"]]
        return {"callers_option_dictionary_unmodified": And(*unmod),
                "result_is_not_the_callers_dictionary": V(r is not a["opts"]),
                "result_differs_at_most_in_shutoff_set_to_immediate": And(V(same_keys), *others)}


CONTRACTS = _mk() + [CustomParameters(), KnownToFail()]
def overrides_do_not_outlive_the_run(repo, tier, seed):
    """'Applied exactly once': an override written into a table that is cached or kept at module / class level would
    stay in effect for later runs that do not give it - C14's effect-scan obligations (persistent writes, memoising
    decorators), re-run under this property."""
    from contracts import C14
    out = []
    for fn in (C14.persistent_writes, C14.files_written_are_never_read):
        for o in fn(repo, tier, seed):
            o = dict(o)
            o["name"] = o["name"].replace("C14/inventory/", "C13/overrides/no_state_outlives_the_run/")
            out.append(o)
    return out


EXTRA = [head_override_columns, overrides_do_not_outlive_the_run]
TRUSTED = [
    "option strings are literal (the documented configuration space); the country row's numbers are symbolic (numpy float64 semantic: x/0 is nan)",
    "documented meaning of each value (MEANING) is taken from scenarios/README.md and the setters' docstrings / descriptions",
    "global-scale setters (scale=global and the *_globally values) are exercised through the exactly-once contracts only",
    "pandas .loc assignment in animal_populations.main modelled as a recorded write",
]
NOT_DECIDED = []
ASSUMPTIONS = list(TRUSTED)
MIN_OBLIGATIONS = 150
