"""C15 - aggregate fed fraction is a capped, population-weighted mean of the selection.

Functions under contract (src/scenarios/run_model_no_trade.py):
ScenarioRunnerNoTrade.get_countries_to_run_and_skip and the country loop of run_model_no_trade
(callees run_optimizer_for_country / apply_custom_parameters / verify_country_data / fill_data_for_map
enter through their contracts).
"""
import z3
from pyvc.vc import Contract
from pyvc.spec import V, And, Or, Not, Implies, If, Abs, Min, Max, Sum, unwrap
from pyvc.values import Sym, Arr, Obj, ClassVal, Native, OpenDict
from pyvc.loops import LoopSpec

RM = "src/scenarios/run_model_no_trade.py"
CLS = "ScenarioRunnerNoTrade"


class Selection(Contract):
    """Selection syntax for a list of literal length L with every '!'-pattern; names are arbitrary
    strings without '!'."""
    prop = "C15"
    file = RM
    func = f"{CLS}.get_countries_to_run_and_skip"

    def __init__(self, pattern):
        self.pattern = pattern  # tuple of booleans: element k is '!'-prefixed
        self.name = "list[" + ",".join("!x" if b else "x" for b in pattern) + "]"

    def inputs(self, S):
        names = [S.str(f"name{k}") for k in range(len(self.pattern))]
        for n in names:
            S.assume(Not(V(Sym(z3.Contains(unwrap(n).t, z3.StringVal("!")), "bool")) if not S.concrete else V("!" in unwrap(n))))
        items = []
        for b, n in zip(self.pattern, names):
            items.append(unwrap(V("!") + n) if b else unwrap(n))
        return dict(args=[S.obj(RM, CLS), items], names=names)

    def ensures(self, S, a, res):
        run, skip = unwrap(res)[0], unwrap(res)[1]
        pat, names = self.pattern, [unwrap(n) for n in a["names"]]
        if len(pat) == 0:
            exp_run, exp_skip = [], []
        elif all(pat):
            exp_run, exp_skip = [], names           # exclusion list: all others run
        else:
            exp_run, exp_skip = [n for b, n in zip(pat, names) if not b], []   # inclusion list: only those named
        def same(xs, ys):
            if len(xs) != len(ys):
                return V(False)
            return And(*[V(x) == V(y) for x, y in zip(xs, ys)]) if xs else V(True)
        return {
            "inclusion_list_runs_only_those_named": same(list(run), exp_run),
            "exclusion_list_skips_exactly_those_named": same(list(skip), exp_skip),
        }


def _selection_summary(LE, LS, exf, skf):
    def summ(interp, ctx, fv, args, kwargs):
        ex = Arr(LE, fn=lambda i: Sym(exf(i if not isinstance(i, int) else z3.IntVal(i)), "str"), dtype="object", is_nd=False)
        sk = Arr(LS, fn=lambda i: Sym(skf(i if not isinstance(i, int) else z3.IntVal(i)), "str"), dtype="object", is_nd=False)
        return (ex, sk)
    return summ


class Aggregate(Contract):
    """The country loop of run_model_no_trade for a table of ANY length and ANY selection lists:
    net_pop = sum over selected rows of population, net_pop_fed = sum of population x min(1, ratio)."""
    prop = "C15"
    file = RM
    func = f"{CLS}.run_model_no_trade"
    merge = True

    def __init__(self, incl, excl):
        # case split on whether an inclusion / exclusion list is present (run in parallel; together exhaustive)
        self.incl, self.excl = incl, excl
        self.name = f"country_loop[{'inclusion' if incl else 'no_inclusion'},{'exclusion' if excl else 'no_exclusion'}]"

    def build(self, S):
        K, LE, LS = S.int("K"), S.int("LE"), S.int("LS")
        S.assume(And(K >= 0, LE >= 0, LS >= 0))
        code = z3.Function("code", z3.IntSort(), z3.StringSort())
        cname = z3.Function("country_name", z3.IntSort(), z3.StringSort())
        pop = z3.Function("population", z3.IntSort(), z3.RealSort())
        ratio = z3.Function("needs_ratio", z3.IntSort(), z3.RealSort())
        exf = z3.Function("exclusive", z3.IntSort(), z3.StringSort())
        skf = z3.Function("skip", z3.IntSort(), z3.StringSort())
        wE = z3.Function("pos_in_exclusive", z3.IntSort(), z3.IntSort())
        wS = z3.Function("pos_in_skip", z3.IntSort(), z3.IntSort())
        return K, LE, LS, code, cname, pop, ratio, exf, skf, wE, wS

    def inputs(self, S):
        if S.concrete:
            raise NotImplementedError("replay of the loop contract is not supported (pandas table)")
        K, LE, LS, code, cname, pop, ratio, exf, skf, wE, wS = self.build(S)
        S.assume(LE > 0 if self.incl else LE == 0)
        S.assume(LS > 0 if self.excl else LS == 0)
        Kt, LEt, LSt = unwrap(K).t, unwrap(LE).t, unwrap(LS).t
        ctx = S.ctx

        def inE(r):
            return z3.And(wE(r) >= 0, wE(r) < LEt, exf(wE(r)) == code(r))

        def inS(r):
            return z3.And(wS(r) >= 0, wS(r) < LSt, skf(wS(r)) == code(r))

        def sel(r):
            return z3.And(z3.Or(LEt == 0, inE(r)), z3.Not(inS(r)))

        # membership is exactly 'some position holds the code' (both directions)
        def link(r):
            if z3.is_app(r) and r.decl().name() in ("pos_in_exclusive", "pos_in_skip"):
                return z3.BoolVal(True)  # r is a list position, not a table row
            ctx.add_index(wE(r))
            ctx.add_index(wS(r))
            ctx.quantified.append((LEt, lambda i, r=r: z3.Implies(exf(i) == code(r), inE(r))))
            ctx.quantified.append((LSt, lambda i, r=r: z3.Implies(skf(i) == code(r), inS(r))))
            return z3.And(pop(r) > 0, ratio(r) >= 0)

        ctx.quantified.append((Kt, link))

        def row(i):
            it = i if not isinstance(i, int) else z3.IntVal(i)
            return OpenDict(f"row", {"iso3": Sym(code(it), "str"), "population": Sym(pop(it), "float"),
                                     "country": Sym(cname(it), "str"), "__row__": Sym(it, "int")}, None, True)

        rows = Arr(unwrap(K), fn=lambda i: (Sym(i, "int") if not isinstance(i, int) else i, row(i)), dtype="object", is_nd=False)
        from pyvc.pdmodel import TableVal
        table = TableVal(rows)
        S.I.table_hook = lambda path: table

        def run_country(interp, ctx_, fv, args, kwargs):
            r = args[1].entries["__row__"]
            rt = r.t if isinstance(r, Sym) else z3.IntVal(r)
            return (Sym(ratio(rt), "float"), "scenario description", Obj(ClassVal("Interpreter", [], {}, None), {"row": r}))

        self.summaries = {
            (RM, f"{CLS}.get_countries_to_run_and_skip"): _selection_summary(unwrap(LE), unwrap(LS), exf, skf),
            (RM, f"{CLS}.apply_custom_parameters"): lambda interp, ctx_, fv, args, kwargs: args[1],
            (RM, f"{CLS}.verify_country_data"): lambda interp, ctx_, fv, args, kwargs: None,
            (RM, f"{CLS}.run_optimizer_for_country"): run_country,
        }

        def summand_pop(i):
            it = i if not isinstance(i, int) else z3.IntVal(i)
            return Sym(z3.If(sel(it), pop(it), z3.RealVal(0)), "float")

        def summand_fed(i):
            it = i if not isinstance(i, int) else z3.IntVal(i)
            capped = z3.If(ratio(it) >= 1, z3.RealVal(1), ratio(it))
            return Sym(z3.If(sel(it), capped * pop(it), z3.RealVal(0)), "float")

        def prefix(summand, k):
            return S.total(V(Arr(unwrap(k), fn=summand, dtype="float", is_nd=False)))

        def invariant(view, k):
            kk = V(k)
            return [
                V(view.net_pop) == prefix(summand_pop, kk),
                V(view.net_pop_fed) == prefix(summand_fed, kk),
                V(view.net_pop_fed) >= 0, V(view.net_pop_fed) <= V(view.net_pop),
            ]

        def inv_formula(view, k):
            return And(*invariant(view, k))

        self.loops = {(RM, f"{CLS}.run_model_no_trade", 0): LoopSpec(
            modifies=["net_pop", "net_pop_fed", "n_errors", "failed_countries", "scenario_description"],
            temporaries=["country_code", "country_data", "population", "country_name", "needs_ratio",
                         "interpreted_results", "capped_ratio", "index"],
            invariant=lambda view, k: unwrap(inv_formula(view, k)), name="country_loop",
            havoc=lambda ctx_, n, old, tag: ("" if n in ("failed_countries", "scenario_description") else None))}
        a = dict(K=K, prefix=prefix, summand_pop=summand_pop, summand_fed=summand_fed)
        a["args"] = [S.obj(RM, CLS)]
        a["kwargs"] = dict(title="t", create_pptx_with_all_countries=False, show_country_figures=False,
                           show_map_figures=False, add_map_slide_to_pptx=False, scenario_option={"scale": "country"},
                           countries_list=["<abstracted by the selection contract>"], return_results=False)
        return a

    replayable = False

    def ensures(self, S, a, res):
        r = unwrap(res)
        net_pop, fed = V(r[1]), V(r[2])
        return {
            "population_is_sum_over_selected_countries": net_pop == a["prefix"](a["summand_pop"], a["K"]),
            "fed_is_sum_of_population_times_capped_ratio": fed == a["prefix"](a["summand_fed"], a["K"]),
            "aggregate_fraction_between_0_and_1": And(fed >= 0, fed <= net_pop),
        }


class ResultsDict(Contract):
    """Every selected country appears exactly once in the returned results: three-row table with literal
    codes/names (symbolic populations and ratios), every selection syntax over it."""
    prop = "C15"
    file = RM
    func = f"{CLS}.run_model_no_trade"
    replayable = False

    CODES = ["AAA", "BBB", "CCC"]

    def __init__(self, sel):
        self.sel = sel
        self.name = "results[" + ",".join(sel) + "]"
        self.bounded = "table of 3 rows with literal codes (results dictionary keyed by literal names)"

    def inputs(self, S):
        if S.concrete:
            raise NotImplementedError
        pops = [S.real(f"pop{k}") for k in range(3)]
        ratios = [S.real(f"ratio{k}") for k in range(3)]
        S.assume(And(*[And(p > 0, r >= 0) for p, r in zip(pops, ratios)]))
        rows = [(k, OpenDict("row", {"iso3": c, "population": unwrap(pops[k]), "country": "country " + c, "__row__": k}, None, True))
                for k, c in enumerate(self.CODES)]
        from pyvc.pdmodel import TableVal
        table = TableVal(list(rows))
        S.I.table_hook = lambda path: table
        self.summaries = {
            (RM, f"{CLS}.apply_custom_parameters"): lambda interp, ctx_, fv, args, kwargs: args[1],
            (RM, f"{CLS}.verify_country_data"): lambda interp, ctx_, fv, args, kwargs: None,
            (RM, f"{CLS}.run_optimizer_for_country"): lambda interp, ctx_, fv, args, kwargs: (
                unwrap(ratios[args[1].entries["__row__"]]), "d", ("result of row", args[1].entries["__row__"])),
        }
        return dict(args=[S.obj(RM, CLS)], pops=pops, ratios=ratios,
                    kwargs=dict(title="t", create_pptx_with_all_countries=False, show_country_figures=False,
                                show_map_figures=False, add_map_slide_to_pptx=False, scenario_option={"scale": "country"},
                                countries_list=list(self.sel), return_results=True))

    def ensures(self, S, a, res):
        r = unwrap(res)
        results = r[3]
        sel = self.sel
        if not sel:
            chosen = [0, 1, 2]
        elif all(s.startswith("!") for s in sel):
            chosen = [k for k, c in enumerate(self.CODES) if "!" + c not in sel]
        else:
            chosen = [k for k, c in enumerate(self.CODES) if c in sel]
        exp = {"country " + self.CODES[k]: ("result of row", k) for k in chosen}
        pop = Sum([a["pops"][k] for k in chosen]) if chosen else V(0)
        fed = Sum([a["pops"][k] * Min(1, a["ratios"][k]) for k in chosen]) if chosen else V(0)
        return {
            "every_selected_country_once_in_results": V(dict(results) == exp),
            "population_is_sum_over_selected_countries": V(r[1]) == pop,
            "fed_is_sum_of_population_times_capped_ratio": V(r[2]) == fed,
        }


CONTRACTS = ([Selection(p) for p in [(), (False,), (True,), (False, False), (True, True), (True, False), (False, True),
                                     (True, True, True), (True, False, True), (False, False, False)]]
             + [Aggregate(i, e) for i in (False, True) for e in (False, True)]
             + [ResultsDict(s) for s in [(), ("AAA",), ("!BBB",), ("AAA", "CCC"), ("!AAA", "!CCC"), ("!AAA", "BBB"),
                                         ("ZZZ",), ("!ZZZ",), ("AAA", "BBB", "AAA")]])
TRUSTED = [
    "machine floats treated as mathematical reals",
    "pandas.read_csv / iterrows / column comparison / row selection / concat modelled as a sequence of rows (pdmodel.py); the "
    "geopandas world map is an unknown table (a country may or may not have a polygon), writes into it are dropped",
    "fill_data_for_map is executed from source; callees run_optimizer_for_country, apply_custom_parameters, verify_country_data enter through their contracts "
    "(returns a ratio >= 0 / returns the row / returns nothing); populations and ratios are not NaN (C16's concern)",
    "induction schema behind prefix sums",
    "Selection contract: lists of literal length <= 3 (all '!' patterns); the loop contract itself is for selection lists of any length",
]
NOT_DECIDED = []
ASSUMPTIONS = list(TRUSTED)
MIN_OBLIGATIONS = 20
