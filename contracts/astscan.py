"""Helpers for the few obligations that are decided on the syntax tree (effect scans, call order): they must not depend
on how a call is spelt or on whether a straight-line piece of a method has been moved into a private helper."""
import ast
import copy


def class_methods(tree, cls):
    for c in tree.body:
        if isinstance(c, ast.ClassDef) and c.name == cls:
            return {n.name: n for n in c.body if isinstance(n, ast.FunctionDef)}
    return {}


def _helper_call(node, methods, this):
    """node is `self.<m>(...)` (or `<Class>.<m>(...)`) for a method of the same class other than `this`."""
    if isinstance(node, ast.Call) and isinstance(node.func, ast.Attribute) and isinstance(node.func.value, ast.Name) \
            and node.func.attr in methods and node.func.attr != this and node.func.attr.startswith("_") \
            and not node.func.attr.startswith("__"):
        return methods[node.func.attr]
    return None


def flat_body(methods, fn, depth=0):
    """Statements of `fn` with calls to private helpers of the same class spliced in where they stand: `self._h(...)`
    as a statement, `x = self._h(...)` and `return self._h(...)` (the helper's final `return e` becomes `x = e` /
    `return e`).  Only for scanning: parameter names are not substituted."""
    out = []
    for st in fn.body:
        call, kind = None, None
        if isinstance(st, ast.Expr):
            call, kind = st.value, "expr"
        elif isinstance(st, ast.Assign):
            call, kind = st.value, "assign"
        elif isinstance(st, ast.Return) and st.value is not None:
            call, kind = st.value, "return"
        h = _helper_call(call, methods, fn.name) if call is not None else None
        if h is None or depth > 4:
            out.append(st)
            continue
        inner = flat_body(methods, h, depth + 1)
        inner = [s for s in inner if not (isinstance(s, ast.Expr) and isinstance(s.value, ast.Constant))]
        if inner and isinstance(inner[-1], ast.Return):
            last = inner.pop()
            if last.value is not None:
                if kind == "assign":
                    new = ast.Assign(targets=copy.deepcopy(st.targets), value=last.value)
                elif kind == "return":
                    new = ast.Return(value=last.value)
                else:
                    new = ast.Expr(value=last.value)
                inner.append(ast.copy_location(ast.fix_missing_locations(new), st))
        out.extend(inner)
    return out


def flat_function(methods, fn):
    """A copy of `fn` whose body is flat_body(...)."""
    g = copy.copy(fn)
    g.body = flat_body(methods, fn)
    return g


def closure_text(methods, fn, seen=None):
    """Source text of `fn` followed by the text of every private helper of the same class it (transitively) calls."""
    seen = seen if seen is not None else set()
    seen.add(fn.name)
    txt = [ast.unparse(fn)]
    for n in ast.walk(fn):
        h = _helper_call(n, methods, fn.name)
        if h is not None and h.name not in seen:
            txt.append(closure_text(methods, h, seen))
    return "\n".join(txt)


def bound_args(call, params):
    """name -> source text of the argument, for a call to a function whose positional parameters (without self) are
    `params`: the call may use positions, keywords or both."""
    out = {}
    for p, a in zip(params, call.args):
        out[p] = ast.unparse(a)
    for k in call.keywords:
        if k.arg is not None:
            out[k.arg] = ast.unparse(k.value)
    return out


def params_of(fn, drop_self=True):
    ps = [a.arg for a in fn.args.posonlyargs + fn.args.args]
    return ps[1:] if drop_self and ps and ps[0] in ("self", "cls") else ps
