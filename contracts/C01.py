"""C01 - reported allocations never use food that does not exist.

The per-month constraints are extracted from the REAL builders of src/optimizer/optimizer.py
(add_stored_food_to_model[_only_first_year], add_meat_to_model[_no_storage], add_outdoor_crops_to_model with
handle_first/other/last_month and the crops-consumed equalities, add_seaweed_to_model, add_methane_scp_to_model,
add_cellulosic_sugar_to_model, get_feed_sum, get_biofuel_sum, add_feed_biofuel_to_model, add_total_human_consumption_
to_model) by executing them for a SYMBOLIC month k of a symbolic horizon N (pyvc.lp).  Each clause of the statement
is then a lemma over  forall k. Template(k), proved by explicit induction obligations (base / step / conclude) on
the cumulative ledgers the statement words - not on the code's start/end variables.
"""
import ast
import json
import os
import subprocess
import time
from fractions import Fraction
import z3

from pyvc import lp
from pyvc.lp import K, N, V, at, prove, template, series_fn, const
from pyvc.vc import Contract
from pyvc.spec import V as SV, And, Or, Not, Implies, unwrap
from contracts.lpcommon import get_templates, ALL, FAMILIES, world_facts, simp

OPT = "src/optimizer/optimizer.py"
P = "C01"


def g(w):
    """retail gross-up factor 1 / (1 - W/100) exactly as a term (W in [0,100))."""
    return 1 / (1 - const(w) / 100)


def use_stored(t):
    return V("stored_food_to_humans")(t) * g("STORED_FOOD_WASTE_RETAIL") + V("stored_food_feed")(t) + V("stored_food_biofuel")(t)


def use_crops(t):
    return V("crops_food_to_humans")(t) * g("CROP_WASTE_RETAIL") + V("crops_food_feed")(t) + V("crops_food_biofuel")(t)


def use_meat(t):
    return V("meat_eaten")(t) * g("MEAT_WASTE_RETAIL")


def use_scp(t):
    return V("methane_scp_to_humans")(t) * g("SCP_RETAIL_WASTE") + V("methane_scp_feed")(t) + V("methane_scp_biofuel")(t)


def use_cs(t):
    return V("cellulosic_sugar_to_humans")(t) * g("CELL_SUGAR_RETAIL_WASTE") + V("cellulosic_sugar_feed")(t) + V("cellulosic_sugar_biofuel")(t)


def cumf(name):
    return z3.Function("cum_" + name, z3.IntSort(), z3.RealSort())


def unfold(f, summand, t):
    return z3.And(z3.Implies(t == 0, f(t) == summand(t)), z3.Implies(t > 0, f(t) == f(t - 1) + summand(t)))


def bounds(t):
    return [V(f)(t) >= 0 for f in FAMILIES]


def induction(tag, T, facts, I, cums, conclude, extra_at=None):
    """Obligations base / step / conclude for invariant I(m) over templates T (list of template formulas).
    cums: [(cum function, summand)]."""
    k = K
    recs = []
    ctx0 = list(facts) + [N >= 14]
    def hyp_at(t):
        h = [at(x, t) for x in T] + bounds(t) + [unfold(f, s, t) for f, s in cums]
        return h
    ex = extra_at or (lambda t: [])
    recs.append(prove(f"{P}/{tag}/base", ctx0 + hyp_at(z3.IntVal(0)) + ex(z3.IntVal(0)), I(z3.IntVal(0))))
    recs.append(prove(f"{P}/{tag}/step", ctx0 + [k > 0, k < N, I(k - 1)] + hyp_at(k) + bounds(k - 1) + ex(k) + ex(k - 1), I(k)))
    m = z3.Int("m")
    for cname, goal in conclude.items():
        recs.append(prove(f"{P}/{tag}/{cname}", ctx0 + [m >= 0, m < N, I(m)] + bounds(m) + bounds(z3.IntVal(12)) + [at(x, m) for x in T] + ex(m),
                          goal(m)))
    return recs


_LEDGER_CACHE = {}


def ledger_obligations(repo, tier, seed):
    """(memoised per process: C02 and C03 re-run these lemmas under their own names)"""
    key = (repo, tier)
    if key not in _LEDGER_CACHE:
        _LEDGER_CACHE[key] = _ledger_obligations(repo, tier, seed)
    return [dict(o) for o in _LEDGER_CACHE[key]]


def _ledger_obligations(repo, tier, seed):
    out = []
    for store in (True, False):
        for otype in ("to_humans", "to_animals"):
            T, facts, sources, npaths, world = get_templates(repo, store, otype)
            facts = world_facts(facts)
            reg = f"{'storage' if store else 'no_storage_between_years'},{otype}"

            # ---- stored food: cumulative use <= initial stock
            cs = cumf("stored_use")
            S0 = const("INITIAL_STORED_FOOD")
            end = V("stored_food_end")
            if store:
                I = lambda m: end(m) == S0 - cs(m)
            else:
                I = lambda m: cs(m) == S0 - end(z3.If(m <= 12, m, z3.IntVal(12)))
            out += induction(f"stored_food[{reg}]", [T["add_stored_food_to_model"]], facts, I, [(cs, use_stored)],
                             {"cumulative_use_never_exceeds_initial_stock": lambda m: cs(m) <= S0})
            # ---- crops: cumulative use <= cumulative harvest
            cc, cp = cumf("crop_use"), cumf("crop_harvest")
            prod = series_fn("crop_production")
            st = V("crops_food_storage")
            Ic = lambda m: st(m) == cp(m) - cc(m)
            out += induction(f"crops[{reg}]", [T["add_outdoor_crops_to_model"]], facts, Ic,
                             [(cc, use_crops), (cp, lambda t: prod(t))],
                             {"cumulative_use_never_exceeds_cumulative_harvest": lambda m: cc(m) <= cp(m)})
            # ---- meat: cumulative use <= slaughtered so far
            cm, csl = cumf("meat_use"), cumf("slaughter")
            sl = series_fn("each_month_meat_slaughtered")
            running = series_fn("max_consumed_culled_kcals_each_month")
            Im = lambda m: cm(m) <= csl(m)
            # the running total handed to the optimiser is the cumulative slaughter (Parameters.calculate_meat_
            # from_feed_results / Food.get_running_total_nutrients_sum: contract RunningTotal below)
            run_is_cum = lambda t: [running(t) == csl(t), sl(t) >= 0]
            out += induction(f"meat[{reg}]", [T["add_meat_to_model"]], facts, Im, [(cm, use_meat), (csl, lambda t: sl(t))],
                             {"cumulative_use_never_exceeds_slaughtered_so_far": lambda m: cm(m) <= csl(m)},
                             extra_at=run_is_cum)
            # ---- per-month caps
            k = K
            ctx = facts + [k >= 0, k < N] + bounds(k)
            # a necessary condition of the cumulative meat clause that DOES hold on the current tree (the cumulative form
            # is known finding F1 in the storage regime): what is eaten in a month, grossed up for retail waste, is within
            # what has been slaughtered so far and within the horizon's total - so that a further loosening of the meat
            # constraints is still reported while F1 is open
            out.append(prove(f"{P}/meat[{reg}]/monthly_use_incl_retail_waste_within_slaughtered_so_far",
                             ctx + [at(T["add_meat_to_model"], k), running(k) >= 0],
                             use_meat(k) <= (running(k) if store else sl(k))))
            out.append(prove(f"{P}/scp[{reg}]/monthly_use_within_monthly_output", ctx + [at(T["add_methane_scp_to_model"], k)],
                             use_scp(k) <= series_fn("methane_scp_production")(k)))
            out.append(prove(f"{P}/cellulosic_sugar[{reg}]/monthly_use_within_monthly_output",
                             ctx + [at(T["add_cellulosic_sugar_to_model"], k)], use_cs(k) <= series_fn("cellulosic_sugar_production")(k)))
            # ---- seaweed ledger and bounds (statement's wording)
            wet, area = V("seaweed_wet_on_farm"), V("used_area")
            growth, built = series_fn("growth_rates_monthly"), series_fn("built_area")
            ledger = wet(k) == (wet(k - 1) * (1 + growth(k) / 100)
                                - V("seaweed_to_humans")(k) * g("SEAWEED_WASTE_RETAIL") - V("seaweed_feed")(k) - V("seaweed_biofuel")(k)
                                - (area(k) - area(k - 1)) * const("MINIMUM_DENSITY") * (const("HARVEST_LOSS") / 100))
            sw = at(T["add_seaweed_to_model"], k)
            out.append(prove(f"{P}/seaweed[{reg}]/growth_and_harvest_ledger", ctx + [sw, k > 0] + bounds(k - 1), ledger))
            out.append(prove(f"{P}/seaweed[{reg}]/starts_at_initial_stock_and_area", ctx + [sw, k == 0],
                             z3.And(wet(k) == const("INITIAL_SEAWEED"), area(k) == const("INITIAL_BUILT_SEAWEED_AREA"),
                                    V("seaweed_to_humans")(k) == 0, V("seaweed_feed")(k) == 0, V("seaweed_biofuel")(k) == 0)))
            out.append(prove(f"{P}/seaweed[{reg}]/between_starting_level_and_density_limit", ctx + [sw],
                             z3.And(const("INITIAL_SEAWEED") <= wet(k), wet(k) <= const("MAXIMUM_DENSITY") * built(k),
                                    const("INITIAL_BUILT_SEAWEED_AREA") <= area(k), area(k) <= built(k))))
            # ---- feed / biofuel
            feed_sum = (V("stored_food_feed")(k) + V("crops_food_feed")(k) + V("seaweed_feed")(k) * const("SEAWEED_KCALS")
                        + V("cellulosic_sugar_feed")(k) + V("methane_scp_feed")(k))
            bio_sum = (V("stored_food_biofuel")(k) + V("crops_food_biofuel")(k) + V("seaweed_biofuel")(k) * const("SEAWEED_KCALS")
                       + V("cellulosic_sugar_biofuel")(k) + V("methane_scp_biofuel")(k))
            fb = at(T["add_feed_biofuel_to_model"], k)
            if otype == "to_humans":
                out.append(prove(f"{P}/feed_biofuel[{reg}]/totals_equal_the_round_charge", ctx + [fb],
                                 z3.And(feed_sum == series_fn("feed_charged")(k), bio_sum == series_fn("biofuel_charged")(k))))
                # fully used by the last month, in every stock regime
                last = N - 1
                lctx = facts + bounds(last)
                out.append(prove(f"{P}/crops[{reg}]/harvest_fully_used_by_last_month",
                                 lctx + [at(T["add_outdoor_crops_to_model"], last)], st(last) == 0))
                if store:
                    out.append(prove(f"{P}/stored_food[{reg}]/stock_fully_used_by_last_month",
                                     lctx + [at(T["add_stored_food_to_model"], last)], end(last) == 0))
                else:
                    # no storage between years: nothing may be drawn after month 12, so 'fully used' means the
                    # stock is exhausted when the first year ends
                    T12 = [at(T["add_stored_food_to_model"], z3.IntVal(j)) for j in range(0, 14)]
                    b12 = [x for j in range(0, 14) for x in bounds(z3.IntVal(j))]
                    out.append(prove(f"{P}/stored_food[{reg}]/stock_fully_used_by_last_month", facts + T12 + b12,
                                     end(z3.IntVal(12)) == 0))
            else:
                prev = k - 1
                feed_prev = z3.substitute(feed_sum, (k, prev))
                bio_prev = z3.substitute(bio_sum, (k, prev))
                out.append(prove(f"{P}/feed_biofuel[{reg}]/within_demand_ceiling", ctx + [fb],
                                 z3.And(feed_sum <= series_fn("max_feed_that_could_be_used")(k),
                                        bio_sum <= series_fn("max_biofuel_that_could_be_used")(k))))
                out.append(prove(f"{P}/feed_biofuel[{reg}]/feed_never_rises_month_to_month", ctx + [fb, k > 0], feed_prev >= feed_sum))
            # vacuity guard: the templates of this regime are jointly satisfiable at an interior month
            s = z3.Solver()
            s.add(facts + [k > 13, k < N - 1] + bounds(k) + bounds(k - 1) + [at(t_, k) for n_, t_ in T.items() if isinstance(t_, z3.ExprRef)])
            r = s.check()
            out.append({"name": f"{P}/cover[{reg}]/templates_satisfiable", "kind": "cover", "status": "discharged" if r == z3.sat else "failed",
                        "backend": "z3", "seconds": 0, "detail": str(r)})
    for r in out:
        if r.get("status") == "failed" and "model_obj" in r:
            r["replay_verdict"], r["replay"] = lp_replay(repo, r)
        r.pop("model_obj", None)
    return out


# ---- native replay of a failed ledger lemma ---------------------------------------------------------------


def lp_replay(repo, rec):
    """A failed induction obligation is a local counter-model; the replay searches a GLOBAL one for a small
    concrete horizon (all real month constraints of months 0..n-1 hold, the ledger fails at some month) and
    checks it against the constraints built by the real code under /venv/bin/python with real PuLP."""
    name = rec["name"]
    import re
    m = re.match(r"C01/(\w+)\[(\w+),(\w+)\]/(.*)", name)
    if not m:
        return "no-model", {"verdict": "no replay procedure for this obligation"}
    res, regime, otype, clause = m.groups()
    if res not in ("stored_food", "meat", "crops"):
        return "no-model", {"verdict": "no replay procedure for this obligation"}
    store = regime == "storage"
    n = 16
    T, facts, _, _, _ = get_templates(repo, store, otype)
    facts = world_facts(facts)
    fn = {"stored_food": "add_stored_food_to_model", "meat": "add_meat_to_model", "crops": "add_outdoor_crops_to_model"}[res]
    s = z3.Solver()
    s.set("timeout", 30000)
    s.add(facts)
    s.add(N == n)
    for j in range(n):
        s.add(at(T[fn], z3.IntVal(j)))
        s.add(bounds(z3.IntVal(j)))
    sl = series_fn("each_month_meat_slaughtered")
    running = series_fn("max_consumed_culled_kcals_each_month")
    prod = series_fn("crop_production")
    if res == "meat":
        acc = 0
        for j in range(n):
            acc = acc + sl(j)
            s.add(sl(j) >= 0, running(j) == acc)
        s.add(const("meat_summed_consumption") == acc)
        viol = []
        eaten, slaughtered = 0, 0
        for j in range(n):
            eaten = eaten + use_meat(z3.IntVal(j))
            slaughtered = slaughtered + sl(j)
            viol.append(eaten > slaughtered + 1)
        s.add(z3.Or(viol))
    elif res == "stored_food":
        used = 0
        for j in range(n):
            used = used + use_stored(z3.IntVal(j))
        if "fully_used" in clause:
            s.add(const("INITIAL_STORED_FOOD") >= 100, used <= const("INITIAL_STORED_FOOD") - 50)
        else:
            s.add(used > const("INITIAL_STORED_FOOD") + 1)
    else:
        used, grown = 0, 0
        viol = []
        for j in range(n):
            used = used + use_crops(z3.IntVal(j))
            grown = grown + prod(j)
            s.add(prod(j) >= 0)
            viol.append(used > grown + 1)
        s.add(z3.Or(viol) if "fully_used" not in clause else used <= grown - 50)
    if s.check() != z3.sat:
        return "spurious", {"verdict": "no global counter-model for a 16-month horizon", "solver": str(s.check())}
    md = s.model()

    def val(t):
        r = md.eval(t, model_completion=True)
        return float(Fraction(r.numerator_as_long(), r.denominator_as_long())) if z3.is_rational_value(r) else float(r.approx(10).as_fraction())

    fams = {"stored_food": ["stored_food_start", "stored_food_end", "stored_food_to_humans", "stored_food_feed", "stored_food_biofuel"],
            "meat": ["meat_start", "meat_end", "meat_eaten"],
            "crops": ["crops_food_storage", "crops_food_consumed", "crops_food_to_humans", "crops_food_feed", "crops_food_biofuel"]}[res]
    req = {
        "repo": repo, "n": n, "store": store, "otype": otype, "builder": fn, "resource": res, "clause": clause,
        "values": {f: [val(V(f)(z3.IntVal(j))) for j in range(n)] for f in fams},
        "consts": {c: val(const(c)) for c in ("INITIAL_STORED_FOOD", "STORED_FOOD_WASTE_RETAIL", "MEAT_WASTE_RETAIL", "CROP_WASTE_RETAIL",
                                              "meat_summed_consumption")},
        "series": {"each_month_meat_slaughtered": [val(sl(j)) for j in range(n)],
                   "max_consumed_culled_kcals_each_month": [val(running(j)) for j in range(n)],
                   "crop_production": [val(prod(j)) for j in range(n)]},
    }
    here = os.path.dirname(os.path.abspath(__file__))
    p = subprocess.run(["/venv/bin/python", os.path.join(here, "..", "pyvc", "lp_native.py")], input=json.dumps(req),
                       capture_output=True, text=True, cwd=repo, timeout=600)
    info = {"request": req, "stdout": p.stdout[-2000:], "stderr": p.stderr[-1500:]}
    if p.returncode != 0:
        info["verdict"] = "runner-error"
        return "error", info
    resp = json.loads(p.stdout.strip().splitlines()[-1])
    info["response"] = resp
    if resp["all_real_constraints_satisfied"] and resp["ledger_violated"]:
        info["verdict"] = "violates-natively"
        return "violation", info
    info["verdict"] = "not-confirmed"
    return "spurious", info


# ---- the pieces around the ledgers ------------------------------------------------------------------------


class LowBound(Contract):
    """Every quantity is non-negative: create_lp_variables gives lowBound = 0."""
    prop = P
    file = OPT
    func = "Optimizer.create_lp_variables"
    name = "lowBound_zero"
    replayable = False

    def inputs(self, S):
        w = lp.World(S, ALL)
        return dict(args=[w.opt, "Some_Prefix", S.int("month")])

    def ensures(self, S, a, res):
        v = unwrap(res)
        return {"created_with_lower_bound_zero": SV(v.lowBound == 0 and v.upBound is None)}


class AllMonthsGetVariables(Contract):
    """add_variable_from_prefixes gives every month of the horizon a fresh variable for every prefix (bounded:
    literal horizon 14; the two loops are uniform in the month)."""
    prop = P
    file = OPT
    func = "Optimizer.add_variable_from_prefixes"
    name = "N14"
    replayable = False
    bounded = "horizon = 14 months (loop over months unrolled)"

    def inputs(self, S):
        from pyvc.values import OpenDict, Obj
        opt = S.obj(OPT, "Optimizer", NMONTHS=14)
        prefixes = ["Stored_Food_Start", "Stored_Food_End", "Meat_Eaten"]
        variables = {p.lower(): [0] * 14 for p in prefixes}
        return dict(args=[opt, variables, prefixes], prefixes=prefixes)

    def ensures(self, S, a, res):
        from pyvc.values import LpVar
        d = unwrap(res)
        ok = all(isinstance(d[p.lower()][m], LpVar) and d[p.lower()][m].lowBound == 0 for p in a["prefixes"] for m in range(14))
        distinct = len({id(d[p.lower()][m]) for p in a["prefixes"] for m in range(14)}) == 14 * len(a["prefixes"])
        return {"every_month_and_prefix_has_a_nonnegative_variable": SV(ok), "variables_are_distinct": SV(distinct)}


class RunningTotal(Contract):
    """The per-month meat cap handed to the optimiser really is the cumulative slaughter:
    Food.get_running_total_nutrients_sum (used by Parameters.calculate_meat_from_feed_results)."""
    prop = P
    file = "src/food_system/food.py"
    func = "Food.get_running_total_nutrients_sum"
    merge = True

    def __init__(self, n):
        self.n = n
        self.name = f"N{n}"
        self.bounded = f"series length = {n} (accumulator loop unrolled)"

    def inputs(self, S):
        n = self.n
        S.set_conversions(S.real("kd"), S.real("fd"), S.real("pd"), False, False, S.real("pop"))
        k = S.series("slaughter", n)
        z = S.series("zf", n)
        food = S.food(k, z, z, "billion kcals each month", "thousand tons each month", "thousand tons each month")
        return dict(args=[food], k=k)

    def ensures(self, S, a, res):
        acc, ok = SV(0), []
        for j in range(self.n):
            acc = acc + a["k"][j]
            ok.append(res.kcals[j] == acc)
        return {"running_total_is_cumulative_sum": And(*ok)}


def later_solves_only_add_constraints(repo, tier, seed):
    """Frame: run_optimizations_on_constraints and the solves it chains never drop or rewrite a constraint - the
    model objects they solve are the built model or `.copy()`s of it extended with `+=`."""
    src = open(os.path.join(repo, OPT)).read()
    tree = ast.parse(src)
    fns = {n.name: n for c in tree.body if isinstance(c, ast.ClassDef) and c.name == "Optimizer" for n in c.body
           if isinstance(n, ast.FunctionDef)}
    chain = ["run_optimizations_on_constraints", "constrain_next_optimization_to_have_same_minimum_starvation",
             "constrain_next_optimization_to_have_same_feed_biofuel", "optimize_best_food_consumption_to_go_to_humans",
             "constrain_next_optimization_to_have_same_total_resilient_foods_in_feed",
             "reduce_fluctuations_with_a_final_optimization"]
    problems = []
    called = set()
    for name in chain:
        fn = fns.get(name)
        if fn is None:
            problems.append(f"missing {name}")
            continue
        for n in ast.walk(fn):
            if isinstance(n, ast.Delete):
                problems.append(f"{name}: del statement")
            if isinstance(n, ast.Call):
                f = n.func
                if isinstance(f, ast.Name) and f.id == "LpProblem":
                    problems.append(f"{name}: builds a new LpProblem (constraints would be lost)")
                if isinstance(f, ast.Attribute) and f.attr in ("pop", "clear", "popitem", "remove") and "constraint" in ast.unparse(f.value):
                    problems.append(f"{name}: removes constraints via {ast.unparse(f)}")
                if isinstance(f, ast.Attribute) and isinstance(f.value, ast.Name) and f.value.id == "self":
                    called.add(f.attr)
            if isinstance(n, (ast.Assign, ast.AugAssign)):
                tg = n.targets if isinstance(n, ast.Assign) else [n.target]
                for t in tg:
                    if isinstance(t, ast.Attribute) and t.attr == "constraints":
                        problems.append(f"{name}: assigns .constraints")
                    if isinstance(t, ast.Subscript) and "constraints" in ast.unparse(t.value):
                        problems.append(f"{name}: rewrites a constraint entry")
            if isinstance(n, ast.Assign) and isinstance(n.value, ast.Call):
                v = n.value
                if isinstance(v.func, ast.Attribute) and v.func.attr == "copy":
                    pass
    extra_called = {c for c in called if c in fns and c not in chain and c not in ("get_feed_sum", "get_biofuel_sum")}
    ok = not problems
    return [{"name": f"{P}/frame/later_solves_only_add_constraints", "kind": "structural", "status": "discharged" if ok else "failed",
             "backend": "ast scan", "seconds": 0, "detail": "; ".join(problems) or f"chain of {len(chain)} functions; other self-calls: {sorted(extra_called)}",
             "goal": "no del / LpProblem( / .constraints write in the solve chain", "replay_verdict": None if ok else "violation",
             "replay": None if ok else {"verdict": "violates-natively", "detail": problems}}]


CONTRACTS = [LowBound(), AllMonthsGetVariables(), RunningTotal(3), RunningTotal(6)] + (
    [RunningTotal(12), RunningTotal(24)] if os.environ.get("VERIF_TIER") == "thorough" else [])
EXTRA = [ledger_obligations, later_solves_only_add_constraints]
TRUSTED = [
    "CBC returns a point that satisfies the model it was given (within its feasibility tolerance); CBC itself is not modelled",
    "PuLP operator overloads mean what their documentation says (pulpmodel.py)",
    "the model-level loop 'for month in range(NMONTHS)' emits Template(k) for every k (checked against the real builder for a 14-month model in C02's equivalence obligation; uniform in k by construction)",
    "machine floats treated as mathematical reals; the induction principle over months",
    "Extractor reports variable values faithfully (that is C04)",
]
NOT_DECIDED = []
ASSUMPTIONS = list(TRUSTED)
MIN_OBLIGATIONS = 40
