"""C12 - more supply never feeds fewer people, and scale does not matter.

Relational lemmas over the month templates extracted from the real builders (human-maximising round, both stock
regimes): for each perturbation class, FOR EVERY point feasible before, an explicit witness point is feasible
after - every month template holds for it under the perturbed data - and every month's percent fed is >= before.
As the objective is bounded by every month's percent fed and by nothing else (C02), the optimum is monotone.
For the feed / biofuel charge the implication runs the other way.  Scale: multiplying population, need and every
supply by c > 0 and every quantity variable by c maps each template to itself with the percent variables unchanged.
"""
import time
import z3
from pyvc import lp
from pyvc.lp import K, N, V, at, prove, series_fn, const
from contracts.lpcommon import get_templates, ALL, FAMILIES, world_facts
from contracts.C01 import g, bounds

P = "C12"
X = z3.Var(0, z3.IntSort())  # bound month in substitute_funs bodies
J = z3.Int("j")               # the perturbed month
D = z3.Real("delta")          # size of the perturbation


def all_templates(T):
    return [t for n, t in T.items() if isinstance(t, z3.ExprRef)]


def perturb(f, fun_map, const_map):
    """Template / formula with variable families and data series replaced by expressions of the month (Var 0)
    and constants replaced by terms."""
    if const_map:
        f = z3.substitute(f, *[(c, t) for c, t in const_map.items()])
    if fun_map:
        f = z3.substitute_funs(f, *[(fn, body) for fn, body in fun_map.items()])
    return f


def bump_at(fn, amount):
    """fn'(x) = fn(x) + amount if x == j else fn(x)"""
    return z3.If(X == J, fn(X) + amount, fn(X))


def from_on(fn, amount):
    return z3.If(X >= J, fn(X) + amount, fn(X))


def transfer(tag, T, facts, fun_map, const_map, extra_hyps=(), percent_dir=">=", timeout=30000, goal_T=None):
    """Obligations: the witness satisfies every month template under the perturbed data, stays non-negative, and
    its percent fed is >= (or <=) the original in every month."""
    k = K
    out = []
    hyps = list(facts) + [k >= 0, k < N, J >= 0, J < N, D >= 0] + bounds(k) + bounds(k - 1) + list(extra_hyps)
    base = all_templates(T)
    hyps += [at(t, k) for t in base] + [z3.Implies(k > 0, at(t, k - 1)) for t in base]
    for name, t in (goal_T or T).items():
        if not isinstance(t, z3.ExprRef):
            continue
        goal = at(perturb(t, fun_map, const_map), k)
        out.append(prove(f"{P}/{tag}/witness_is_feasible/{name}", hyps, goal, timeout_ms=timeout))
    # vacuity guard: the original point's hypotheses are jointly satisfiable
    sv = z3.Solver()
    sv.set("timeout", 20000)
    sv.add(hyps + [k > 13, k < N - 1, J == k])
    rv = sv.check()
    out.append({"name": f"{P}/{tag}/cover", "kind": "cover", "status": "discharged" if rv != z3.unsat else "failed", "backend": "z3",
                "seconds": 0, "detail": str(rv)})
    nonneg = z3.And([perturb(V(f)(k) >= 0, fun_map, const_map) for f in FAMILIES])
    out.append(prove(f"{P}/{tag}/witness_is_non_negative", hyps, nonneg, timeout_ms=timeout))
    pct, pct2 = V("consumed_kcals")(k), perturb(V("consumed_kcals")(k), fun_map, const_map)
    out.append(prove(f"{P}/{tag}/percent_fed_each_month_{'not_lower' if percent_dir == '>=' else 'not_higher'}", hyps,
                     pct2 >= pct if percent_dir == ">=" else pct2 <= pct, timeout_ms=timeout))
    return out


def monotonicity(repo, tier, seed):
    out = []
    for store in (True, False):
        reg = "storage" if store else "no_storage_between_years"
        T, facts, _, _, _ = get_templates(repo, store, "to_humans")
        facts = world_facts(facts)
        BKN = const("BILLION_KCALS_NEEDED")
        pct_gain = lambda amount: z3.If(X == J, V("consumed_kcals")(X) + amount * 100 / BKN, V("consumed_kcals")(X))

        # 1. initial stored food + delta: people eat the extra in month 0 (retail waste applies)
        w = const("STORED_FOOD_WASTE_RETAIL")
        eat0 = D * (1 - w / 100)
        fm = {V("stored_food_to_humans"): z3.If(X == 0, V("stored_food_to_humans")(X) + eat0, V("stored_food_to_humans")(X)),
              V("stored_food_start"): z3.If(X == 0, V("stored_food_start")(X) + D, V("stored_food_start")(X)),
              V("consumed_kcals"): z3.If(X == 0, V("consumed_kcals")(X) + eat0 * 100 / BKN, V("consumed_kcals")(X))}
        out += transfer(f"initial_stock_increased[{reg}]", T, facts, fm, {const("INITIAL_STORED_FOOD"): const("INITIAL_STORED_FOOD") + D})

        # 2. crop production of month j + delta: eaten by people that month
        wc = const("CROP_WASTE_RETAIL")
        eat = D * (1 - wc / 100)
        fm = {series_fn("crop_production"): bump_at(series_fn("crop_production"), D),
              V("crops_food_to_humans"): bump_at(V("crops_food_to_humans"), eat),
              V("crops_food_consumed"): bump_at(V("crops_food_consumed"), D),
              V("consumed_kcals"): pct_gain(eat)}
        out += transfer(f"crop_production_increased[{reg}]", T, facts, fm, {})

        # 3. SCP / cellulosic sugar output of month j + delta, seaweed farm area + delta: the caps only loosen
        for name in ("methane_scp_production", "cellulosic_sugar_production", "built_area"):
            out += transfer(f"{name}_increased[{reg}]", T, facts, {series_fn(name): bump_at(series_fn(name), D)}, {})

        # 4. meat: total and running totals + delta from month j on (more slaughtered in month j)
        fm = {series_fn("max_consumed_culled_kcals_each_month"): from_on(series_fn("max_consumed_culled_kcals_each_month"), D),
              series_fn("each_month_meat_slaughtered"): bump_at(series_fn("each_month_meat_slaughtered"), D),
              V("meat_start"): V("meat_start")(X) + D, V("meat_end"): V("meat_end")(X) + D}
        out += transfer(f"meat_increased[{reg}]", T, facts, fm, {const("meat_summed_consumption"): const("meat_summed_consumption") + D})

        # 5. milk, fish, greenhouse output of month j + delta: counted directly in that month's percent fed
        for name in ("milk_kcals", "fish_to_humans", "greenhouse_crops"):
            fm = {series_fn(name): bump_at(series_fn(name), D), V("consumed_kcals"): pct_gain(D)}
            out += transfer(f"{name}_increased[{reg}]", T, facts, fm, {})

        # 6. retail waste lowered: people eat what is no longer thrown away (gross use unchanged)
        for wname, fam in (("STORED_FOOD_WASTE_RETAIL", "stored_food_to_humans"), ("CROP_WASTE_RETAIL", "crops_food_to_humans"),
                           ("MEAT_WASTE_RETAIL", "meat_eaten")):
            w0 = const(wname)
            w1 = z3.Real(wname + "_lower")
            ratio = (1 - w1 / 100) / (1 - w0 / 100)   # >= 1
            gain = V(fam)(X) * (ratio - 1)
            fm = {V(fam): V(fam)(X) * ratio, V("consumed_kcals"): V("consumed_kcals")(X) + gain * 100 / BKN}
            out += transfer(f"{wname}_lowered[{reg}]", T, facts, fm, {w0: w1}, extra_hyps=[w1 >= 0, w1 <= w0])
        for wname in ("SCP_RETAIL_WASTE", "CELL_SUGAR_RETAIL_WASTE"):
            w0 = const(wname)
            w1 = z3.Real(wname + "_lower")
            out += transfer(f"{wname}_lowered[{reg}]", T, facts, {}, {w0: w1}, extra_hyps=[w1 >= 0, w1 <= w0])

        # 7. feed / biofuel charge of month j RAISED by delta -> percent fed does not increase.  Witness for the
        #    converse direction: from a point feasible under the larger charge, scale that month's feed (biofuel)
        #    draws by charge / (charge + delta); stored food and crops thus freed are eaten by people, the rest is
        #    simply not produced.  (Configurations without seaweed: its biomass ledger has no free disposal.)
        Tn, factsn, _, _, _ = get_templates(repo, store, "to_humans", resources=tuple(r for r in ALL if r != "seaweed"))
        factsn = world_facts(factsn)
        for use, charge in (("feed", "feed_charged"), ("biofuel", "biofuel_charged")):
            ch = series_fn(charge)
            # the hypothesis world has the LARGER charge ch(x) + [x == j] delta; the goal world the smaller ch(x)
            big = {series_fn(charge): bump_at(ch, D)}
            Tbig = {n: perturb(t, big, {}) for n, t in Tn.items() if isinstance(t, z3.ExprRef)}
            rho = z3.If(X == J, ch(X) / (ch(X) + D), z3.RealVal(1))
            freed_sf = V("stored_food_" + use)(X) * (1 - rho)
            freed_cr = V("crops_food_" + use)(X) * (1 - rho)
            ws, wc2 = const("STORED_FOOD_WASTE_RETAIL"), const("CROP_WASTE_RETAIL")
            fm = {V(f"{r}_{use}"): V(f"{r}_{use}")(X) * rho for r in ("stored_food", "crops_food", "cellulosic_sugar", "methane_scp")}
            fm[V("stored_food_to_humans")] = V("stored_food_to_humans")(X) + freed_sf * (1 - ws / 100)
            fm[V("crops_food_to_humans")] = V("crops_food_to_humans")(X) + freed_cr * (1 - wc2 / 100)
            fm[V("consumed_kcals")] = V("consumed_kcals")(X) + (freed_sf * (1 - ws / 100) + freed_cr * (1 - wc2 / 100)) * 100 / BKN
            out += transfer(f"{charge}_raised_converse[{reg}]", Tbig, factsn, fm, {},
                            extra_hyps=[ch(J) >= 0, ch(K) >= 0, z3.Implies(K == J, ch(K) + D > 0)], goal_T=Tn)
    return out


def scale(repo, tier, seed):
    """Multiplying population, need and every supply by c > 0 (and every quantity by c) maps each month template to
    itself; percent variables are unchanged."""
    out = []
    c = z3.Real("scale")
    pct = {"consumed_kcals", "consumed_fat", "consumed_protein"}
    for store in (True, False):
        reg = "storage" if store else "no_storage_between_years"
        T, facts, _, _, world = get_templates(repo, store, "to_humans")
        facts = world_facts(facts)
        fm = {V(f): V(f)(X) * c for f in FAMILIES if f not in pct}
        for name in ("crop_production", "fish_to_humans", "methane_scp_production", "cellulosic_sugar_production",
                     "each_month_meat_slaughtered", "max_consumed_culled_kcals_each_month", "built_area", "milk_kcals",
                     "greenhouse_crops", "feed_charged", "biofuel_charged"):
            fm[series_fn(name)] = series_fn(name)(X) * c
        cm = {const(n): const(n) * c for n in ("INITIAL_STORED_FOOD", "meat_summed_consumption", "INITIAL_SEAWEED",
                                                "INITIAL_BUILT_SEAWEED_AREA", "POP", "BILLION_KCALS_NEEDED")}
        k = K
        hyps = list(facts) + [k >= 0, k < N, c > 0] + bounds(k) + bounds(k - 1)
        base = [t for n, t in T.items() if isinstance(t, z3.ExprRef)]
        hyps += [at(t, k) for t in base]
        for name, t in T.items():
            if isinstance(t, z3.ExprRef):
                out.append(prove(f"{P}/scale[{reg}]/template_maps_to_itself/{name}", hyps, at(perturb(t, fm, cm), k), timeout_ms=30000))
        # the scale factor may carry a country across the 10-million-people threshold the optimiser treats
        # specially (looser tolerances when pinning the previous round's consumption): the constraints of the
        # first solve - which decide percent fed - must be the same on both sides of it
        Ts, facts_s, _, _, _ = get_templates(repo, store, "to_humans", pop_small=True)
        pop = const("POP")
        def about_threshold(f):
            return "10000000" in f.sexpr().replace(".0", "") and "POP" in f.sexpr()
        shared = [f for f in facts if not about_threshold(f)]
        hyps2 = shared + [k >= 0, k < N] + bounds(k) + bounds(k - 1)
        for name, t in T.items():
            if not isinstance(t, z3.ExprRef):
                continue
            ts = Ts.get(name)
            goal = z3.BoolVal(False) if ts is None or not isinstance(ts, z3.ExprRef) else (at(t, k) == at(ts, k))
            out.append(prove(f"{P}/scale[{reg}]/template_same_on_both_sides_of_the_small_country_threshold/{name}", hyps2, goal,
                             timeout_ms=30000))
        sv = z3.Solver()
        sv.add(*hyps2)
        out.append({"name": f"{P}/scale[{reg}]/threshold_hypotheses_satisfiable", "kind": "cover", "backend": "z3", "goal": "sat(hyps)",
                    "detail": "", "seconds": 0, "status": "discharged" if sv.check() == z3.sat else "failed"})
    return out


CONTRACTS = []
def _c01_variable_bounds():
    """Scale invariance and the feasibility-transfer witnesses assume that the ONLY bounds on a variable are the constraints of the
    templates and non-negativity: an absolute upper bound on the variables (a "never active" solver-robustness cap) is not scale
    free.  C01's contract of Optimizer.create_lp_variables (lower bound 0, NO upper bound), re-run under this property."""
    from contracts import C01
    from contracts.common import relabelled
    return relabelled([c for c in C01.CONTRACTS if type(c).__name__ == "LowBound"], "C12")


CONTRACTS = CONTRACTS + _c01_variable_bounds()
EXTRA = [monotonicity, scale]
TRUSTED = [
    "CBC returns the optimum of the model (monotonicity / invariance of the OPTIMUM follows from the feasibility transfer proved here plus C02's objective structure)",
    "month templates as extracted from the real builders (C01); floats as reals",
    "the feed / biofuel charge class is proved for configurations without seaweed (its ledger is an equality without free disposal); seaweed growth-rate and seaweed retail-waste perturbations are not covered",
    "fat / protein not counted (the shipped nutrition profiles); distribution waste enters through the supply series (an increase of a supply)",
]
NOT_DECIDED = ["monotonicity in seaweed growth rates / seaweed retail waste (no free disposal in the biomass ledger)"]
ASSUMPTIONS = list(TRUSTED)
MIN_OBLIGATIONS = 60
