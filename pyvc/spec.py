"""Specification language for sidecar contracts.

`V` wraps an engine value with Python operators so that contract clauses read like ordinary
expressions; the same clause text is evaluated (a) symbolically, giving a z3 formula, and (b) on the
concrete post-state returned by the native replay, giving True / False / BORDER (three-valued, so a
float-rounding-sized discrepancy never confirms a violation).
"""
from fractions import Fraction
import z3

from .values import Sym, Arr, Obj, OpenDict, ClassVal, EngineError, Unsupported, LpVar, LpExpr, FloatSpecial, NAN
from . import ops
from .ops import simp


class _Border:
    def __repr__(self):
        return "BORDER"

    def __bool__(self):
        raise EngineError("BORDER used as a Python bool")


BORDER = _Border()
TOL = [None]  # (relative tolerance, absolute floor) during native replay evaluation, else None


def unwrap(x):
    return x.v if isinstance(x, V) else x


def _cmp(op, a, b):
    a, b = unwrap(a), unwrap(b)
    if isinstance(a, FloatSpecial) or isinstance(b, FloatSpecial):
        # undefined (e.g. x/0 in a clause evaluated on concrete values): never confirms anything
        return V(BORDER) if TOL[0] is not None else V(ops.scalar_compare(op, a, b))
    if TOL[0] is not None and isinstance(a, (int, Fraction)) and isinstance(b, (int, Fraction)) and not (
        isinstance(a, bool) or isinstance(b, bool)
    ) and (isinstance(a, Fraction) or isinstance(b, Fraction)):
        rel, floor = TOL[0]
        if abs(a - b) <= rel * max(abs(a), abs(b)) + floor:
            return V(BORDER)
    if isinstance(a, Arr) or isinstance(b, Arr):
        raise EngineError("compare series element-wise at an index: use s[i]")
    return V(ops.scalar_compare(op, a, b))


def _arith(op, a, b):
    a, b = unwrap(a), unwrap(b)
    if isinstance(a, Arr) or isinstance(b, Arr):
        raise EngineError("series arithmetic in a spec: index first (s[i])")
    try:
        return V(ops.scalar_binop(op, a, b))
    except ops.PyRaise as e:
        if e.cls_name == "ZeroDivisionError":
            return V(NAN)
        raise


class V:
    __slots__ = ("v",)

    def __init__(self, v):
        object.__setattr__(self, "v", v.v if isinstance(v, V) else v)

    def __repr__(self):
        return f"V({self.v!r})"

    def __add__(self, o): return _arith("+", self, o)
    def __radd__(self, o): return _arith("+", o, self)
    def __sub__(self, o): return _arith("-", self, o)
    def __rsub__(self, o): return _arith("-", o, self)
    def __mul__(self, o): return _arith("*", self, o)
    def __rmul__(self, o): return _arith("*", o, self)
    def __truediv__(self, o): return _arith("/", self, o)
    def __rtruediv__(self, o): return _arith("/", o, self)
    def __floordiv__(self, o): return _arith("//", self, o)
    def __mod__(self, o): return _arith("%", self, o)
    def __pow__(self, o): return _arith("**", self, o)
    def __neg__(self): return V(ops.scalar_neg(self.v))
    def __le__(self, o): return _cmp("<=", self, o)
    def __lt__(self, o): return _cmp("<", self, o)
    def __ge__(self, o): return _cmp(">=", self, o)
    def __gt__(self, o): return _cmp(">", self, o)
    def __eq__(self, o): return _cmp("==", self, o)
    def __ne__(self, o): return _cmp("!=", self, o)
    __hash__ = None

    def __bool__(self):
        v = self.v
        if isinstance(v, bool):
            return v
        raise EngineError(f"spec value used as a Python bool: {v!r} (use And/Or/Implies/If)")

    def __getattr__(self, name):
        v = self.v
        if isinstance(v, Obj):
            if name in v.attrs:
                return V(v.attrs[name])
            cv, owner = v.cls.lookup(name)
            if owner is not None:
                return V(cv)
            raise EngineError(f"spec: {v!r} has no attribute {name}")
        if isinstance(v, Arr) and name == "length":
            return V(v.length)
        raise EngineError(f"spec: attribute {name} of {v!r}")

    def __getitem__(self, k):
        v = self.v
        k = unwrap(k)
        if isinstance(v, Arr):
            if isinstance(k, Sym):
                return V(v.get(k.t))
            return V(v.get(k))
        if isinstance(v, (list, tuple)):
            if isinstance(k, Sym):
                return V(Arr(len(v), elems=list(v), dtype="object", is_nd=False).get(k.t))
            return V(v[k])
        if isinstance(v, dict):
            return V(v[k])
        if isinstance(v, OpenDict):
            if k in v.entries:
                return V(v.entries[k])
            if v.default is not None and not v.closed and k not in v.deleted:
                x = v.default(k)
                v.entries[k] = x
                return V(x)
            raise EngineError(f"spec: key {k!r} missing in {v.name}")
        raise EngineError(f"spec: subscript of {v!r}")

    def __len__(self):
        v = self.v
        if isinstance(v, (list, tuple, dict)):
            return len(v)
        if isinstance(v, Arr) and isinstance(v.length, int):
            return v.length
        raise EngineError("spec: len() of a symbolic-length series: use .length")

    def has(self, name):
        return isinstance(self.v, Obj) and name in self.v.attrs


def _tri(x):
    """-> True | False | BORDER | z3 BoolRef."""
    x = unwrap(x)
    if isinstance(x, bool) or x is BORDER:
        return x
    if isinstance(x, Sym):
        x = simp(x)
        if isinstance(x, bool):
            return x
        return ops.as_bool_term(x)
    if z3.is_expr(x):
        return x
    if isinstance(x, (list, tuple)):
        return _tri(And(*x))
    raise EngineError(f"not a boolean spec value: {x!r}")


def And(*xs):
    if len(xs) == 1 and isinstance(xs[0], (list, tuple)):
        xs = tuple(xs[0])
    ts = [_tri(x) for x in xs]
    if any(t is False for t in ts):
        return V(False)
    border = any(t is BORDER for t in ts)
    zs = [t for t in ts if not isinstance(t, bool) and t is not BORDER]
    if zs:
        if border:
            raise EngineError("BORDER mixed with symbolic terms")
        return V(Sym(z3.And(zs) if len(zs) > 1 else zs[0], "bool"))
    return V(BORDER if border else True)


def Or(*xs):
    if len(xs) == 1 and isinstance(xs[0], (list, tuple)):
        xs = tuple(xs[0])
    ts = [_tri(x) for x in xs]
    if any(t is True for t in ts):
        return V(True)
    border = any(t is BORDER for t in ts)
    zs = [t for t in ts if not isinstance(t, bool) and t is not BORDER]
    if zs:
        if border:
            raise EngineError("BORDER mixed with symbolic terms")
        return V(Sym(z3.Or(zs) if len(zs) > 1 else zs[0], "bool"))
    return V(BORDER if border else False)


def Not(x):
    t = _tri(x)
    if isinstance(t, bool):
        return V(not t)
    if t is BORDER:
        return V(BORDER)
    return V(Sym(z3.Not(t), "bool"))


def Implies(a, b):
    return Or(Not(a), b)


def Iff(a, b):
    return And(Implies(a, b), Implies(b, a))


def If(c, a, b):
    t = _tri(c)
    if isinstance(t, bool):
        return V(unwrap(a) if t else unwrap(b))
    if t is BORDER:
        return V(unwrap(a))
    a, b = unwrap(a), unwrap(b)
    return V(ops.ite(Sym(t, "bool"), a, b))


def Abs(x):
    x = unwrap(x)
    if isinstance(x, FloatSpecial):
        return V(x)
    return V(ops.scalar_abs(x))


def Min(*xs):
    out = unwrap(xs[0])
    for x in xs[1:]:
        out = ops.smin(out, unwrap(x))
    return V(out)


def Max(*xs):
    out = unwrap(xs[0])
    for x in xs[1:]:
        out = ops.smax(out, unwrap(x))
    return V(out)


def Sum(xs):
    acc = V(0)
    for x in xs:
        acc = acc + x
    return acc


def formula_of(x):
    """Final clause -> z3 BoolRef (symbolic) or True/False/BORDER (concrete)."""
    return _tri(x)


def IsInt(x):
    x = unwrap(x)
    return V(isinstance(x, int) and not isinstance(x, bool) or (isinstance(x, Sym) and x.kind == "int"))


class Spec:
    """Factory of (symbolic or replayed-concrete) inputs, bound to one path execution."""

    def __init__(self, ctx, interp, model=None):
        self.ctx = ctx
        self.I = interp
        self.model = model  # z3 model during native replay evaluation, else None
        self.names = set()
        self.index_decls = []
        self.recorded_inputs = {}  # replay mode: every input term evaluated in the model -> [kind, value]

    # ---- scalars
    @property
    def concrete(self):
        return self.model is not None

    def _reg(self, name):
        if name in self.names:
            raise EngineError(f"duplicate spec symbol {name}")
        self.names.add(name)

    def _eval(self, t, kind):
        r = self.model.eval(t, model_completion=True)
        rec = getattr(self.model, "recorded", None)
        if rec is None and not isinstance(self.model, RecordedModel):
            try:
                self.recorded_inputs[t.sexpr()] = [kind, r.sexpr()]
            except Exception:
                pass
        if kind == "int":
            return r.as_long()
        if kind == "bool":
            return z3.is_true(r)
        if kind == "str":
            return r.as_string()
        if z3.is_rational_value(r):
            q = Fraction(r.numerator_as_long(), r.denominator_as_long())
        elif z3.is_algebraic_value(r):
            a = r.approx(20)
            q = Fraction(a.numerator_as_long(), a.denominator_as_long())
        else:
            raise EngineError(f"cannot evaluate {t} in the model: {r}")
        return Fraction(float(q))  # exactly the double the native run receives

    def real(self, name):
        self._reg(name)
        t = z3.Real(name)
        return V(self._eval(t, "float")) if self.concrete else V(Sym(t, "float"))

    def int(self, name):
        self._reg(name)
        t = z3.Int(name)
        return V(self._eval(t, "int")) if self.concrete else V(Sym(t, "int"))

    def bool(self, name):
        self._reg(name)
        t = z3.Bool(name)
        return V(self._eval(t, "bool")) if self.concrete else V(Sym(t, "bool"))

    def str(self, name):
        self._reg(name)
        t = z3.String(name)
        return V(self._eval(t, "str")) if self.concrete else V(Sym(t, "str"))

    def idx(self, name, n):
        """A fresh index 0 <= i < n: clauses stated at it hold for every index."""
        i = self.int(name)
        self.assume(And(i >= 0, i < n))
        if not self.concrete:
            self.ctx.add_index(i.v.t)
        return i

    # ---- series
    def series(self, name, n, dtype="float", nd=True):
        self._reg(name)
        n = unwrap(n)
        sort = {"float": z3.RealSort(), "int": z3.IntSort(), "bool": z3.BoolSort()}[dtype]
        f = z3.Function(name, z3.IntSort(), sort)
        if self.concrete:
            if not isinstance(n, int):
                raise EngineError("series length must be concrete during replay")
            els = [self._eval(f(z3.IntVal(k)), dtype) for k in range(n)]
            return V(Arr(n, elems=els, dtype=dtype, is_nd=nd))
        if isinstance(n, int):
            els = [Sym(f(z3.IntVal(k)), dtype) for k in range(n)]
            return V(Arr(n, elems=els, dtype=dtype, is_nd=nd))
        return V(Arr(n, fn=lambda i: Sym(f(i if not isinstance(i, int) else z3.IntVal(i)), dtype), dtype=dtype, is_nd=nd))

    # ---- objects
    def cls(self, relpath, name):
        c = self.I.load_function(relpath, name)
        if not isinstance(c, ClassVal):
            raise EngineError(f"{relpath}:{name} is not a class")
        return c

    def obj(self, relpath, clsname, **attrs):
        c = self.cls(relpath, clsname)
        o = Obj(c, {k: unwrap(v) for k, v in attrs.items()})
        return V(o)

    def opendict(self, name, entries=None, kind="float", closed=False):
        self._reg(name)
        ents = {k: unwrap(v) for k, v in (entries or {}).items()}
        if closed:
            return V(OpenDict(name, ents, None, True))

        def default(key, name=name, kind=kind):
            sym = f"{name}[{key!r}]"
            t = {"float": z3.Real, "int": z3.Int, "bool": z3.Bool, "str": z3.String}[kind](sym)
            if self.concrete:
                return self._eval(t, kind)
            return Sym(t, kind)

        return V(OpenDict(name, ents, default, False))

    def call(self, relpath, qualname, *args, **kwargs):
        """Call a function / constructor of the repository inside the interpreter (to build inputs with
        the real constructors rather than hand-made look-alikes)."""
        fn = self.I.load_function(relpath, qualname)
        return V(self.I.call(fn, [unwrap(a) for a in args], {k: unwrap(v) for k, v in kwargs.items()}))

    def food(self, kcals, fat=None, protein=None, kcals_units="billion kcals", fat_units="thousand tons",
             protein_units="thousand tons"):
        """A repo Food built by the real Food.__init__."""
        kw = dict(kcals=kcals, kcals_units=kcals_units, fat_units=fat_units, protein_units=protein_units)
        if fat is not None:
            kw["fat"] = fat
        if protein is not None:
            kw["protein"] = protein
        return self.call("src/food_system/food.py", "Food", **kw)

    def set_conversions(self, kcals_daily, fat_daily, protein_daily, include_fat, include_protein, population):
        """Food.conversions.set_nutrition_requirements(...) executed from the real source."""
        food_cls = self.cls("src/food_system/food.py", "Food")
        conv = food_cls.ns["conversions"]
        self.I.call_method(conv, "set_nutrition_requirements",
                           [unwrap(x) for x in (kcals_daily, fat_daily, protein_daily, include_fat, include_protein, population)])
        return V(conv)

    def total(self, series):
        """Sum of a series (the same normalised prefix-sum terms the engine uses for .sum())."""
        a = unwrap(series)
        if isinstance(a, (list, tuple)):
            a = Arr(len(a), elems=list(a), dtype="float", is_nd=False)
        if a.concrete_len():
            acc = Fraction(0)
            for k in range(a.length):
                acc = ops.scalar_binop("+", acc, a.get(k))
            return V(acc)
        from .npmodel import sym_sum

        return V(sym_sum(self.ctx, a))

    def fresh_series(self, base, n, dtype="float", nd=True):
        """A havoc'd series (for callee summaries): fresh uninterpreted contents."""
        self.ctx.counter += 1
        return self.series(f"{base}!{self.ctx.counter}", n, dtype, nd)

    # ---- assumptions
    def assume(self, f):
        t = formula_of(f)
        if self.concrete:
            if t is True or t is BORDER:
                return
            if t is False:
                raise ReplayInvalid("replayed inputs do not satisfy the precondition (float rounding of the model)")
            raise EngineError("symbolic assumption during replay")
        if t is True:
            return
        if t is False:
            from .interp import Infeasible

            raise Infeasible()
        self.ctx.facts.append(t)

    def forall(self, n, body):
        """Assume body(i) for every 0 <= i < n (instantiated at the index terms the proof uses)."""
        n = unwrap(n)
        if self.concrete:
            for k in range(n):
                self.assume(body(V(k)))
            return
        lt = ops.as_int_term(n)

        def inst(i):
            return formula_of(body(V(Sym(i, "int") if not isinstance(i, int) else i)))

        self.ctx.quantified.append((lt, inst))


class ReplayInvalid(Exception):
    pass


class RecordedModel:
    """Stands in for a z3 model when a stored replay file is re-run (./check --replay): the values of the input
    terms are the ones recorded when the counter-model was first replayed."""

    def __init__(self, recorded):
        self.table = recorded

    def eval(self, t, model_completion=True):
        key = t.sexpr()
        if key not in self.table:
            raise EngineError(f"replay file has no value for input term {key}")
        kind, val = self.table[key]
        return z3.simplify(z3.parse_smt2_string(f"(declare-fun r!x () {_SORT[kind]}) (assert (= r!x {val}))")[0].arg(1))

    def __str__(self):
        return json_dumps(self.table)


_SORT = {"float": "Real", "int": "Int", "bool": "Bool", "str": "String"}


def json_dumps(x):
    import json

    return json.dumps(x)[:4000]
