"""Contracts, verification-condition generation, discharge (z3 + cvc5) and native replay."""
import json
import os
import subprocess
import sys
import tempfile
import time
import traceback
from fractions import Fraction
import z3

from .values import (
    Sym, Arr, Arr2, Obj, OpenDict, ClassVal, EngineError, Unsupported, FloatSpecial, NAN, INF, LpVar, LpExpr,
    Opaque,
)
from . import ops, spec as sp
from .interp import Interp, Ctx, PyExc, Infeasible, ExcVal, NoForkAbort
from .loops import LoopBodyDone, as_formula
from .builtins_model import deep_copy
from .values import NpInt as NpIntT

HERE = os.path.dirname(os.path.abspath(__file__))
VENV_PY = "/venv/bin/python"
CVC5 = "/usr/bin/cvc5"


class Contract:
    """Base class of sidecar contracts.  Subclasses set prop/file/func/name and override inputs/ensures."""

    np_floats = False  # inputs are numpy float64 (as read by pandas): x/0 is nan/inf, not ZeroDivisionError

    prop = None
    file = None
    func = None
    name = "main"
    raises = "never"  # 'never': any exception under the precondition is a failed obligation
    loops = {}  # {(relpath, qualname, ordinal): LoopSpec}
    summaries = {}
    max_paths = 4000
    replayable = True
    bounded = None  # text describing a bound when this contract is a bounded stand-in (never counted as proved)
    dead_ok = False
    solver_timeout_ms = 20000

    def inputs(self, S):
        raise NotImplementedError

    def ensures(self, S, a, res):
        return {}

    def on_raise(self, S, a, exc):
        """Clauses that must hold on a path ending in an exception (default: such a path must not exist)."""
        if self.raises == "never":
            return {f"no_exception[{exc.cls_name}]": sp.V(False)}
        return {}

    def class_state(self, S, a):
        """[(relpath, class name, attribute, value)] class attributes to set before the native replay."""
        return []

    def setup(self, I, S, a):
        """Hook run on every path before the call (e.g. to set class-level state in the interpreter)."""

    def call(self, I, S, a):
        if "calls" in a:
            # several calls of repository functions in sequence (enumerations); result = list of results
            out = []
            for c in a["calls"]:
                fn = I.load_function(c.get("file", self.file), c["func"])
                args = [x.resolve(out, I) if isinstance(x, Ref) else sp.unwrap(x) for x in c.get("args", [])]
                out.append(I.call(fn, args, {k: sp.unwrap(v) for k, v in c.get("kwargs", {}).items()}))
            return out
        fn = I.load_function(self.file, self.func)
        return I.call(fn, [sp.unwrap(x) for x in a.get("args", [])], {k: sp.unwrap(v) for k, v in a.get("kwargs", {}).items()})

    @property
    def label(self):
        return f"{self.prop}/{os.path.basename(self.file)}::{self.func}[{self.name}]"


class Ref:
    """Argument of a chained call: the result of an earlier call of the same contract (then a path of
    tuple indices / attribute names / dict keys into it)."""

    def __init__(self, k, *path):
        self.k, self.path = k, path

    def resolve(self, results, I):
        v = results[self.k]
        for p in self.path:
            if isinstance(p, int) or not isinstance(p, str):
                v = I.get_item(v, p)
            elif p.startswith("."):
                v = I.get_attr(v, p[1:])
            else:
                v = I.get_item(v, p)
        return v


class Obl:
    def __init__(self, name, hyps, goal, kind, path_id, contract):
        self.name = name
        self.hyps = hyps
        self.goal = goal
        self.kind = kind
        self.path_id = path_id
        self.contract = contract
        self.status = None  # discharged | failed | unknown
        self.backend = None
        self.seconds = 0.0
        self.model = None
        self.detail = ""
        self.replay = None


def instantiate_quantified(ctx, extra_terms=()):
    """Ground instances of the universally quantified facts and of the prefix-sum unfoldings at every
    index term the path used (a complete, quantifier-free stand-in for E-matching).  Incremental:
    every (fact, term) pair is instantiated once; a re-entrant call (an instance whose evaluation itself
    asks the solver) sees the instances computed so far."""
    d = ctx.__dict__
    out_list = d.setdefault("_inst_list", [])
    if d.get("_instantiating"):
        return out_list
    ctx._instantiating = True
    prev_nofork = ctx.nofork
    ctx.nofork = True
    try:
        done = d.setdefault("_inst_done", set())
        for t in extra_terms:
            ctx.add_index(t if z3.is_expr(t) else z3.IntVal(t))
        # fixpoint: instantiating may create new index terms / quantified facts
        while True:
            nt, nq, ns = len(ctx.index_terms), len(ctx.quantified), len(ctx.sums)
            key = (nt, nq, ns)
            if d.get("_inst_sig") == key:
                break
            for qi in range(nq):
                lt, inst = ctx.quantified[qi]
                ends = d.setdefault("_inst_ends", {})
                if qi not in ends:
                    ends[qi] = [z3.IntVal(0), z3.simplify(lt - 1)]
                templates = d.setdefault("_inst_templates", {})
                if qi not in templates:
                    # evaluate the body once at a fresh bound index; instances are substitutions
                    ctx.counter += 1
                    qv = z3.Int(f"qv!{ctx.counter}")
                    ctx.facts.append(z3.Implies(lt > 0, z3.And(qv >= 0, qv < lt)))
                    sig = (len(ctx.facts), len(ctx.quantified), len(ctx.sums), ctx.counter)
                    try:
                        tb = as_formula(inst(qv))
                        if sig != (len(ctx.facts), len(ctx.quantified), len(ctx.sums), ctx.counter):
                            tb = None
                    except (PyExc, NoForkAbort):
                        tb = None
                    templates[qi] = (qv, tb)
                qv, tb = templates[qi]
                for t in ends[qi] + ctx.index_terms[:nt]:
                    k = ("q", qi, t.get_id())
                    if k in done:
                        continue
                    done.add(k)
                    if tb is not None:
                        body = z3.substitute(tb, (qv, t)) if z3.is_expr(tb) else tb
                    else:
                        try:
                            body = as_formula(inst(t))
                        except (PyExc, NoForkAbort):
                            continue
                    out_list.append(z3.Implies(z3.And(t >= 0, t < lt), body))
            for si in range(ns):
                S, summand = ctx.sums[si]
                for t in [z3.IntVal(0)] + ctx.index_terms[:nt]:
                    k = ("s", si, t.get_id())
                    if k in done:
                        continue
                    done.add(k)
                    out_list.append(z3.Implies(t >= 0, S(t + 1) == S(t) + summand(t)))
            if (len(ctx.index_terms), len(ctx.quantified), len(ctx.sums)) == key:
                d["_inst_sig"] = key
                break
        return out_list
    finally:
        ctx._instantiating = False
        ctx.nofork = prev_nofork


class PathRun:
    pass


def run_path(contract, I, decisions, model=None):
    """Execute the contract's function along one decision prefix.  Returns (ctx, S, a, outcome, value)."""
    ctx = Ctx(I, decisions)
    I.new_path(ctx)
    I.loop_specs, I.summaries = {}, {}
    S = sp.Spec(ctx, I, model=model)
    a = contract.inputs(S)
    I.loop_specs = dict(contract.loops)  # inputs() may build loop contracts / summaries over its symbols
    I.loop_renames = dict(getattr(contract, "loop_renames", None) or {})
    I.summaries = dict(contract.summaries)
    contract.setup(I, S, a)
    pre = None
    ctx.np_floats = bool(contract.np_floats)
    ops.NP_FLOATS[0] = ctx.np_floats
    ctx.asserts_may_raise = contract.raises == "allowed"
    if getattr(contract, "merge", False):
        ctx.merge_mode += 1  # simple conditionals are merged (ite) instead of forking the path
    try:
        res = contract.call(I, S, a)
        outcome = "return"
    except PyExc as pe:
        res = pe.exc
        outcome = "raise"
    except ops.PyRaise as pr:
        res = ExcVal(pr.cls_name, (pr.msg,))
        outcome = "raise"
    except LoopBodyDone:
        res = None
        outcome = "loopbody"
    return ctx, S, a, outcome, res


def explore(contract, I, stats):
    """All feasible paths of the function under the contract's precondition -> list of obligations."""
    work = [[]]
    obls = []
    npaths = 0
    notes = set()
    dropped = set()
    while work:
        dec = work.pop()
        try:
            ctx, S, a, outcome, res = run_path(contract, I, dec)
        except Infeasible:
            stats["infeasible_prefixes"] = stats.get("infeasible_prefixes", 0) + 1
            continue
        work.extend(ctx.pending)
        len_pending = len(ctx.pending)
        npaths += 1
        if npaths > contract.max_paths:
            raise Unsupported(f"more than {contract.max_paths} paths")
        pid = npaths
        dropped |= ctx.dropped
        notes |= set(ctx.notes)
        for (name, facts, pc, goal) in ctx.obligations:
            hyps = facts + pc
            obls.append(Obl(f"{contract.label}/{name}", hyps, goal, "inline", pid, contract))
        try:
            if outcome == "return":
                clauses = contract.ensures(S, a, sp.V(res) if not isinstance(res, sp.V) else res)
            elif outcome == "raise":
                clauses = contract.on_raise(S, a, res)
            else:
                clauses = {}
        except Infeasible:
            # evaluating the postcondition exposed the path as unreachable
            stats["infeasible_prefixes"] = stats.get("infeasible_prefixes", 0) + 1
            npaths -= 1
            obls = [o for o in obls if o.path_id != pid]
            continue
        work.extend(ctx.pending[len_pending:])
        pow_ax = [ax for (ra, rb, t) in ops.POW_TERMS for ax in ops.pow_axioms(ra, rb, t)]
        inst = instantiate_quantified(ctx)
        hyps = list(ctx.facts) + list(ctx.pc) + inst + pow_ax
        for o in obls:
            if o.path_id == pid and o.kind == "inline":
                o.hyps = o.hyps + inst + pow_ax
        for cname, fs in clauses.items():
            # a clause given as a list is discharged conjunct by conjunct (keeps non-linear queries small)
            for f in (fs if isinstance(fs, list) else [fs]):
                g = sp.formula_of(f)
                if g is sp.BORDER:
                    raise EngineError("BORDER in symbolic mode")
                if isinstance(g, bool):
                    g = z3.BoolVal(g)
                o = Obl(f"{contract.label}/{cname}", hyps, g, outcome, pid, contract)
                o.decisions = list(ctx.decisions)
                obls.append(o)
        # cover: the path is reachable under the precondition (guards against vacuous contracts)
        cov = Obl(f"{contract.label}/cover", hyps, None, "cover", pid, contract)
        cov.outcome = outcome
        obls.append(cov)
        stats.setdefault("outcomes", {}).setdefault(outcome, 0)
        stats["outcomes"][outcome] += 1
    stats["paths"] = npaths
    stats["dropped"] = sorted(dropped)
    stats["notes"] = sorted(notes)
    return obls


# ------------------------------------------------------------------------------------------------
# discharge


def smt2_of(hyps, neg_goal):
    s = z3.Solver()
    for h in hyps:
        s.add(h)
    s.add(neg_goal)
    return s.to_smt2()


def run_cvc5(smt2, timeout_s, strings=False):
    txt = smt2
    if "(set-logic" not in txt:
        txt = "(set-logic ALL)\n" + txt
    args = [CVC5, "--lang=smt2", f"--tlimit={int(timeout_s * 1000)}"]
    if strings:
        args.append("--strings-exp")
    with tempfile.NamedTemporaryFile("w", suffix=".smt2", delete=False, dir=os.environ.get("TMPDIR", "/tmp")) as f:
        f.write(txt)
        path = f.name
    try:
        p = subprocess.run(args + [path], capture_output=True, text=True, timeout=timeout_s + 10)
        out = p.stdout.strip().splitlines()
        return out[0] if out else "unknown"
    except subprocess.TimeoutExpired:
        return "unknown"
    finally:
        os.unlink(path)


def discharge(o, timeout_ms=20000, use_cvc5=True):
    t0 = time.time()
    s = z3.Solver()
    s.set("timeout", timeout_ms)
    for h in o.hyps:
        s.add(h)
    if o.kind == "cover":
        r = s.check()
        o.seconds = time.time() - t0
        o.backend = "z3"
        if r == z3.sat:
            o.status = "discharged"
            o.model = s.model()  # an input that drives this path (used by the engine differential check)
        elif r == z3.unsat:
            o.status = "dead"
            o.detail = "path condition unsatisfiable once quantified facts are instantiated: dead path"
        else:
            o.status = "discharged"  # reachability was already established branch by branch
            o.detail = "cover: solver returned unknown; reachability established incrementally"
        return o
    s.add(z3.Not(o.goal))
    r = None
    if len(o.hyps) > 40:
        # cone of influence first: proving the goal from FEWER hypotheses is sound and keeps non-linear queries small
        for hops in (1, 2):
            sub = relevant_hyps(o.hyps, o.goal, hops)
            if len(sub) >= len(o.hyps):
                break
            s2 = z3.Solver()
            s2.set("timeout", min(timeout_ms, 8000))
            for h in sub:
                s2.add(h)
            s2.add(z3.Not(o.goal))
            if s2.check() == z3.unsat:
                r = z3.unsat
                o.detail = f"discharged from {len(sub)} of {len(o.hyps)} hypotheses (cone of influence)"
                break
    if r is None:
        r = s.check()
    o.backend = "z3"
    if r == z3.unsat:
        o.status = "discharged"
    elif r == z3.sat:
        o.status = "failed"
        o.model = s.model()
        o.models = robust_models(s, o.goal) + [o.model]
    else:
        o.status = "unknown"
        o.detail = f"z3: {s.reason_unknown()}"
        if _split_on_goal_ites(o, timeout_ms):
            o.seconds = time.time() - t0
            return o
        m = model_by_concretisation(o.hyps, z3.Not(o.goal))
        if m is not None:
            o.status, o.model, o.backend = "failed", m, "z3 (inputs partly concretised)"
            o.models = [m]
        if use_cvc5 and o.status == "unknown":
            try:
                txt = smt2_of(o.hyps, z3.Not(o.goal))
                has_str = "String" in txt or "str." in txt
                rc = run_cvc5(txt, 60, strings=has_str)
                if rc == "unsat":
                    o.status, o.backend = "discharged", "cvc5"
                elif rc == "sat":
                    # a model is needed for the replay: ask z3 again with more time
                    s.set("timeout", 120000)
                    r2 = s.check()
                    if r2 == z3.sat:
                        o.status, o.model, o.backend = "failed", s.model(), "cvc5+z3"
                    else:
                        o.status, o.backend = "failed", "cvc5"
                        o.detail += "; cvc5: sat (no model extracted)"
                else:
                    o.detail += f"; cvc5: {rc}"
            except Exception as e:  # pragma: no cover
                o.detail += f"; cvc5 error: {e}"
    o.seconds = time.time() - t0
    return o


def _ite_conditions(f, limit=6):
    out, seen, stack = [], set(), [f]
    while stack:
        t = stack.pop()
        if t.get_id() in seen or not z3.is_app(t):
            continue
        seen.add(t.get_id())
        if t.decl().kind() == z3.Z3_OP_ITE and z3.is_arith(t):
            c = t.arg(0)
            if all(not c.eq(x) for x in out):
                out.append(c)
                if len(out) > limit:
                    return None
        stack.extend(t.children())
    return out


def _split_on_goal_ites(o, timeout_ms):
    """Non-linear goals mentioning min/max/if-else terms: decide them case by case (each case is ite-free and is
    put in sum-of-monomials form).  Proof of a case may use a subset of the hypotheses; a counter-model is taken
    only from the FULL hypothesis set."""
    conds = _ite_conditions(o.goal)
    if not conds:
        return False
    import itertools

    sub = relevant_hyps(o.hyps, o.goal, 2) if len(o.hyps) > 40 else list(o.hyps)
    for vals in itertools.product([True, False], repeat=len(conds)):
        pairs = [(c, z3.BoolVal(v)) for c, v in zip(conds, vals)]
        case = [c if v else z3.Not(c) for c, v in zip(conds, vals)]
        g = z3.simplify(z3.substitute(o.goal, *pairs), som=True)
        decided = False
        for hy in (sub, o.hyps):
            sc = z3.Solver()
            sc.set("timeout", min(timeout_ms, 10000))
            for h in hy:
                sc.add(h)
            sc.add(*case)
            sc.add(z3.Not(g))
            r = sc.check()
            if r == z3.unsat:
                decided = True
                break
            if r == z3.sat and hy is o.hyps:
                o.status, o.model, o.backend = "failed", sc.model(), "z3 (case split on the goal's conditionals)"
                o.models = [o.model]
                return True
        if not decided:
            return False
    o.status, o.backend = "discharged", "z3 (case split on the goal's conditionals)"
    o.detail = f"{2 ** len(conds)} cases"
    return True


_CMP = (z3.Z3_OP_LE, z3.Z3_OP_GE, z3.Z3_OP_LT, z3.Z3_OP_GT, z3.Z3_OP_EQ, z3.Z3_OP_DISTINCT)


def _robust(f, rel, positive):
    """A strengthening of f (positive) or of Not(f) (not positive) that holds by a clear relative margin, so
    that the native replay - which ignores float-rounding-sized discrepancies - can confirm it."""
    k = f.decl().kind() if z3.is_app(f) else None
    ch = f.children() if z3.is_app(f) else []
    if k == z3.Z3_OP_NOT:
        return _robust(ch[0], rel, not positive)
    if k == z3.Z3_OP_AND:
        parts = [_robust(c, rel, positive) for c in ch]
        return z3.And(parts) if positive else z3.Or(parts)
    if k == z3.Z3_OP_OR:
        parts = [_robust(c, rel, positive) for c in ch]
        return z3.Or(parts) if positive else z3.And(parts)
    if k == z3.Z3_OP_IMPLIES:
        p, q = ch
        if positive:
            return z3.Or(_robust(p, rel, False), _robust(q, rel, True))
        return z3.And(_robust(p, rel, True), _robust(q, rel, False))
    if k in _CMP and len(ch) == 2 and z3.is_arith(ch[0]) and z3.is_arith(ch[1]):
        a, b = ch
        if a.sort() != b.sort():
            a = z3.ToReal(a) if z3.is_int(a) else a
            b = z3.ToReal(b) if z3.is_int(b) else b
        m = rel * (z3.If(a >= 0, a, -a) + z3.If(b >= 0, b, -b)) + rel
        op = k
        if not positive:
            op = {z3.Z3_OP_LE: z3.Z3_OP_GT, z3.Z3_OP_GE: z3.Z3_OP_LT, z3.Z3_OP_LT: z3.Z3_OP_GE, z3.Z3_OP_GT: z3.Z3_OP_LE,
                  z3.Z3_OP_EQ: z3.Z3_OP_DISTINCT, z3.Z3_OP_DISTINCT: z3.Z3_OP_EQ}[k]
        if op in (z3.Z3_OP_LE, z3.Z3_OP_LT):
            return a <= b - m
        if op in (z3.Z3_OP_GE, z3.Z3_OP_GT):
            return a >= b + m
        if op == z3.Z3_OP_DISTINCT:
            return z3.Or(a >= b + m, a <= b - m)
        return a == b
    return f if positive else z3.Not(f)


def _margin_constraints(goal, rel):
    return [_robust(goal, rel, False)]


def _symbols(f, cache={}):
    i = f.get_id()
    if i in cache:
        return cache[i]
    out = set()
    seen = set()
    stack = [f]
    while stack:
        x = stack.pop()
        xi = x.get_id()
        if xi in seen:
            continue
        seen.add(xi)
        if z3.is_app(x) and x.decl().kind() == z3.Z3_OP_UNINTERPRETED:
            out.add(x.decl().name())
        stack.extend(x.children())
    if len(cache) > 200000:
        cache.clear()
    cache[i] = out
    return out


def relevant_hyps(hyps, goal, hops):
    """Hypotheses within `hops` symbol-sharing steps of the goal.  Symbols occurring in a large share of the
    hypotheses (settings such as the population) do not propagate relevance; hypotheses that only talk about
    such symbols and the goal's own symbols are always kept."""
    hs = [(_symbols(h)) for h in hyps]
    freq = {}
    for h in hs:
        for x in h:
            freq[x] = freq.get(x, 0) + 1
    limit = max(25, len(hyps) // 5)
    hubs = {x for x, n in freq.items() if n > limit}
    gsyms = set(_symbols(goal))
    syms = set(gsyms) - hubs
    if not syms:
        syms = set(gsyms)
    chosen = [False] * len(hyps)
    for k, h in enumerate(hs):
        if h and h <= (hubs | gsyms) and len(h - hubs) <= 1:
            chosen[k] = True
    for _ in range(hops):
        new = set()
        for k, h in enumerate(hs):
            if not chosen[k] and (h - hubs) & syms:
                chosen[k] = True
                new |= (h - hubs)
        syms |= new
    return [h for k, h in enumerate(hyps) if chosen[k]]


def _input_consts(fs):
    """Uninterpreted arithmetic constants named by the contract (no '!': not engine-generated)."""
    seen, out = set(), {}
    stack = list(fs)
    while stack:
        x = stack.pop()
        i = x.get_id()
        if i in seen:
            continue
        seen.add(i)
        if z3.is_const(x) and x.decl().kind() == z3.Z3_OP_UNINTERPRETED and z3.is_arith(x):
            out[x.decl().name()] = x
        stack.extend(x.children())
    return [out[k] for k in sorted(out)]


def model_by_concretisation(hyps, neg_goal, tries=40, seed=0):
    """Model search for non-linear obligations the solvers leave open: fix a random subset of the input
    constants to simple rationals (which makes the rest linear) and re-check.  Only ever used to find a
    counter-model for the native replay; never to discharge anything."""
    import random

    rnd = random.Random(seed)
    consts = _input_consts(list(hyps) + [neg_goal])
    pool = ["0", "1", "2", "3", "1/2", "3/5", "4/5", "10", "100", "7", "1/10", "25", "1000", "3/2"]
    s = z3.Solver()
    s.set("timeout", 1500)
    for h in hyps:
        s.add(h)
    s.add(neg_goal)
    for t in range(tries):
        s.push()
        frac_fixed = rnd.choice([0.4, 0.6, 0.8, 1.0])
        for c in consts:
            if rnd.random() < frac_fixed:
                v = rnd.choice(pool)
                if z3.is_int(c):
                    if "/" in v:
                        continue
                    s.add(c == z3.IntVal(int(v)))
                else:
                    s.add(c == z3.RealVal(v))
        r = s.check()
        if r == z3.sat:
            m = s.model()
            s.pop()
            return m
        s.pop()
    return None


def robust_models(s, goal):
    """Extra counter-models violating the goal by a relative margin (tried first by the replay)."""
    models = []
    budget = 6
    for rel in (z3.RealVal("0.05"), z3.RealVal("0.000001")):
        mcs = _margin_constraints(goal, rel)
        for mc in mcs:
            if budget <= 0:
                break
            budget -= 1
            s.push()
            s.add(mc)
            s.set("timeout", 3000)
            if s.check() == z3.sat:
                models.append(s.model())
            s.pop()
            if models:
                break
        if models:
            break
    return models


# ------------------------------------------------------------------------------------------------
# native replay


def enc(v, memo):
    if isinstance(v, Ref):
        return {"t": "result", "k": v.k, "path": list(v.path)}
    v = sp.unwrap(v)
    if v is None:
        return {"t": "none"}
    if isinstance(v, bool):
        return {"t": "bool", "v": v}
    if isinstance(v, NpIntT):
        return {"t": "npint", "v": int(v)}
    if isinstance(v, int):
        return {"t": "int", "v": v}
    if isinstance(v, Fraction):
        return {"t": "float", "v": repr(float(v))}
    if isinstance(v, FloatSpecial):
        return {"t": "float", "v": v.name}
    if isinstance(v, str):
        return {"t": "str", "v": v}
    if id(v) in memo:
        return {"t": "ref", "id": memo[id(v)]}
    if isinstance(v, (list, tuple)):
        memo[id(v)] = len(memo)
        return {"t": "list" if isinstance(v, list) else "tuple", "id": memo[id(v)], "v": [enc(x, memo) for x in v]}
    if isinstance(v, dict):
        memo[id(v)] = len(memo)
        return {"t": "dict", "id": memo[id(v)], "v": [[enc(k, memo), enc(x, memo)] for k, x in v.items()]}
    if isinstance(v, OpenDict):
        memo[id(v)] = len(memo)
        return {"t": "dict", "id": memo[id(v)], "v": [[enc(k, memo), enc(x, memo)] for k, x in v.entries.items()]}
    if isinstance(v, Arr):
        memo[id(v)] = len(memo)
        if not v.concrete_len():
            raise EngineError("symbolic-length series in a replay input")
        els = [v.get(k) for k in range(v.length)]
        if v.is_nd:
            return {"t": "ndarray", "id": memo[id(v)], "dtype": v.dtype, "v": [enc(x, memo) for x in els]}
        return {"t": "list", "id": memo[id(v)], "v": [enc(x, memo) for x in els]}
    if isinstance(v, Obj):
        memo[id(v)] = len(memo)
        mod = v.cls.module
        return {"t": "obj", "id": memo[id(v)], "file": getattr(mod, "path", None), "cls": v.cls.name,
                "attrs": {k: enc(x, memo) for k, x in v.attrs.items()}}
    if isinstance(v, Sym):
        raise EngineError(f"symbolic value in a replay input: {v!r}")
    if isinstance(v, ClassVal):
        return {"t": "class", "file": getattr(v.module, "path", None), "cls": v.name}
    raise EngineError(f"cannot encode {type(v).__name__} for replay")


class _DummyCls(ClassVal):
    pass


def dec(j, memo, I):
    t = j["t"]
    if t == "none":
        return None
    if t == "npint":
        return NpIntT(j["v"])
    if t in ("bool", "int", "str"):
        return j["v"]
    if t == "float":
        s = j["v"]
        if s in ("nan",):
            return NAN
        if s in ("inf", "-inf"):
            return INF
        return Fraction(float(s))
    if t == "ref":
        return memo[j["id"]]
    if t in ("list", "tuple"):
        out = []
        if "id" in j:
            memo[j["id"]] = out
        out.extend(dec(x, memo, I) for x in j["v"])
        return out if t == "list" else tuple(out)
    if t == "dict":
        out = {}
        if "id" in j:
            memo[j["id"]] = out
        for k, x in j["v"]:
            out[dec(k, memo, I)] = dec(x, memo, I)
        return out
    if t == "ndarray":
        els = [dec(x, memo, I) for x in j["v"]]
        a = Arr(len(els), elems=els, dtype=j.get("dtype", "float"), is_nd=True)
        if "id" in j:
            memo[j["id"]] = a
        return a
    if t == "obj":
        cls = None
        if j.get("file"):
            try:
                cls = I.load_function(j["file"], j["cls"])
            except Exception:
                cls = None
        if not isinstance(cls, ClassVal):
            cls = ClassVal(j["cls"], [], {}, None)
        o = Obj(cls, {})
        if "id" in j:
            memo[j["id"]] = o
        for k, x in j["attrs"].items():
            o.attrs[k] = dec(x, memo, I)
        return o
    if t == "opaque":
        return Opaque(j.get("v", "native value"))
    raise EngineError(f"cannot decode {t}")


def sync(pre, post, seen=None):
    """Copy the post-state returned by the native run into the (aliased) pre-state engine objects."""
    seen = seen if seen is not None else set()
    if id(pre) in seen:
        return
    seen.add(id(pre))
    if isinstance(pre, Obj) and isinstance(post, Obj):
        for k, x in post.attrs.items():
            if k in pre.attrs and isinstance(pre.attrs[k], (Obj, list, dict, Arr, OpenDict)) and type(pre.attrs[k]) is type(x):
                sync(pre.attrs[k], x, seen)
            else:
                pre.attrs[k] = x
        for k in list(pre.attrs):
            if k not in post.attrs:
                del pre.attrs[k]
    elif isinstance(pre, Arr) and isinstance(post, Arr):
        pre.length, pre.elems, pre.fn, pre.dtype = post.length, post.elems, None, post.dtype
    elif isinstance(pre, list) and isinstance(post, list):
        for k in range(min(len(pre), len(post))):
            if isinstance(pre[k], (Obj, list, dict, Arr)) and type(pre[k]) is type(post[k]):
                sync(pre[k], post[k], seen)
            else:
                pre[k] = post[k]
        if len(post) != len(pre):
            pre[:] = pre[:len(post)] + post[len(pre):]
    elif isinstance(pre, dict) and isinstance(post, dict):
        for k, x in post.items():
            if k in pre and isinstance(pre[k], (Obj, list, dict, Arr)) and type(pre[k]) is type(x):
                sync(pre[k], x, seen)
            else:
                pre[k] = x
        for k in list(pre):
            if k not in post:
                del pre[k]
    elif isinstance(pre, OpenDict) and isinstance(post, dict):
        for k, x in post.items():
            if k in pre.entries and isinstance(pre.entries[k], (Obj, list, dict, Arr)) and type(pre.entries[k]) is type(x):
                sync(pre.entries[k], x, seen)
            else:
                pre.entries[k] = x
        for k in list(pre.entries):
            if k not in post:
                del pre.entries[k]
                pre.deleted.add(k)


class _WithModel:
    def __init__(self, o, model):
        self.name, self.path_id, self.backend, self.model = o.name, o.path_id, o.backend, model


def _class_objects(I):
    """Class attributes of loaded repo classes that hold objects (e.g. Food.conversions): the native
    run must start from the same class-level state as the replayed pre-state."""
    from .values import ModuleVal

    out = []
    for mod in list(I.modules.values()):
        if not isinstance(mod, ModuleVal):
            continue
        for name, c in mod.ns.items():
            if isinstance(c, ClassVal) and c.module is mod:
                for at, v in c.ns.items():
                    if isinstance(v, Obj):
                        out.append((mod.path, c.name, at, v))
    return out


def _maxabs(j):
    m = Fraction(0)
    if isinstance(j, dict):
        if j.get("t") == "float":
            try:
                m = abs(Fraction(float(j["v"])))
            except (ValueError, OverflowError):
                m = Fraction(0)
        elif j.get("t") == "int":
            m = Fraction(abs(j["v"]))
        for v in j.values():
            if isinstance(v, (dict, list)):
                m = max(m, _maxabs(v))
    elif isinstance(j, list):
        for v in j:
            m = max(m, _maxabs(v))
    return m


def native_replay(contract, I, o, repo, replay_dir):
    """Replay the counter-models (clear-margin ones first) until one is confirmed natively."""
    last = None
    for m in (getattr(o, "models", None) or [o.model]):
        verdict, info = _native_replay_one(contract, I, o, m, repo)
        if verdict == "violation":
            return verdict, info
        if last is None or verdict != "error":
            last = (verdict, info)
    return last


def _native_replay_one(contract, I, o, model, repo):
    """Run the real function under /venv/bin/python on the counter-model and evaluate the failed clause."""
    o = _WithModel(o, model)
    info = {"obligation": o.name, "path": o.path_id, "solver": o.backend, "model": str(o.model)[:4000]}
    try:
        ctx = Ctx(I, [])
        I.new_path(ctx)
        S = sp.Spec(ctx, I, model=o.model)
        sp.TOL[0] = (Fraction(1, 10 ** 9), Fraction(0))
        try:
            a = contract.inputs(S)
            contract.setup(I, S, a)
            memo = {}
            req = {
                "repo": repo, "file": contract.file, "func": contract.func,
                "args": [enc(x, memo) for x in a.get("args", [])],
                "kwargs": {k: enc(v, memo) for k, v in a.get("kwargs", {}).items()},
                "class_state": [[f, c, at, enc(v, memo)] for (f, c, at, v) in
                                list(contract.class_state(S, a)) + _class_objects(I)],
            }
            req["np_floats"] = bool(contract.np_floats)
            if "calls" in a:
                req["calls"] = [{"file": c.get("file", contract.file), "func": c["func"],
                                 "args": [enc(x, memo) for x in c.get("args", [])],
                                 "kwargs": {k: enc(v, memo) for k, v in c.get("kwargs", {}).items()}} for c in a["calls"]]
            info["request"] = req
            info["inputs"] = dict(S.recorded_inputs) if not isinstance(o.model, sp.RecordedModel) else dict(o.model.table)
            # comparisons closer than 1e-9 relative are 'borderline': a float-rounding-sized discrepancy never
            # confirms a violation (the counter-model itself is exact in R; the replay guards the encoding)
            sp.TOL[0] = (Fraction(1, 10 ** 9), Fraction(0))
            p = subprocess.run([VENV_PY, os.path.join(HERE, "native_runner.py")], input=json.dumps(req),
                               capture_output=True, text=True, cwd=repo, timeout=600)
            if p.returncode != 0:
                info["verdict"] = "runner-error"
                info["stderr"] = p.stderr[-3000:]
                return "error", info
            resp = json.loads(p.stdout.splitlines()[-1])
            info["response"] = resp
            dmemo = {}
            # same order as the native encoder (result first): back-references resolve
            res_dec = dec(resp["result"], dmemo, I) if resp["outcome"] == "return" else None
            post_args = [dec(x, dmemo, I) for x in resp["args"]]
            post_kwargs = {k: dec(v, dmemo, I) for k, v in resp["kwargs"].items()}
            if "calls" in a:
                for c, pc_ in zip(a["calls"], resp.get("calls_post", [])):
                    for pre, post in zip(c.get("args", []), [dec(x, dmemo, I) for x in pc_]):
                        if not isinstance(pre, Ref):
                            sync(sp.unwrap(pre), post)
            for pre, post in zip(a.get("args", []), post_args):
                sync(sp.unwrap(pre), post)
            for k, post in post_kwargs.items():
                sync(sp.unwrap(a["kwargs"][k]), post)
            if resp["outcome"] == "return":
                res = res_dec
                clauses = contract.ensures(S, a, sp.V(res))
            else:
                exc = ExcVal(resp["exc"], (resp.get("msg", ""),))
                clauses = contract.on_raise(S, a, exc)
            info["native_outcome"] = resp["outcome"] + (":" + resp.get("exc", "") if resp["outcome"] == "raise" else "")
            cname = o.name.rsplit("/", 1)[1]
            # an exception clause is keyed by exception class: any exception clause counts
            vals = {}
            for k, f in clauses.items():
                vals[k] = sp.formula_of(sp.And(*f) if isinstance(f, list) else f)
            info["native_clauses"] = {k: repr(v) for k, v in vals.items()}
            if cname in vals:
                v = vals[cname]
            elif cname.startswith("no_exception") and resp["outcome"] == "raise":
                v = False
            elif cname.startswith("no_exception") and resp["outcome"] == "return":
                v = True
            else:
                # the clause belongs to the other outcome (e.g. model says 'raise', native returned)
                v = sp.BORDER
            if v is False:
                info["verdict"] = "violates-natively"
                return "violation", info
            info["verdict"] = "holds-natively" if v is True else "borderline-natively"
            return "spurious", info
        finally:
            sp.TOL[0] = None
    except sp.ReplayInvalid as e:
        info["verdict"] = f"replay-invalid: {e}"
        return "spurious", info
    except Exception as e:
        info["verdict"] = f"replay-error: {type(e).__name__}: {e}"
        info["trace"] = traceback.format_exc()[-3000:]
        return "error", info


# ------------------------------------------------------------------------------------------------
# engine differential check (thorough tier): the interpreter, run on CONCRETE inputs, against CPython


def _close(x, y):
    try:
        fx, fy = float(x), float(y)
    except (TypeError, ValueError):
        return x == y
    if fx != fx and fy != fy:
        return True
    return abs(fx - fy) <= 1e-9 * max(abs(fx), abs(fy)) + 1e-12


def _json_same(a, b, path="result"):
    """None when the two encoded values agree (numbers to 1e-9 relative), else a description of the first difference."""
    if isinstance(a, dict) and isinstance(b, dict) and "t" in a and "t" in b:
        ta, tb = a["t"], b["t"]
        num = ("int", "float", "bool", "npint")  # (the native runner reports a numpy integer as an int)
        if ta in num and tb in num:
            return None if _close(a["v"], b["v"]) else f"{path}: {a['v']} vs {b['v']}"
        seq_t = ("list", "tuple", "ndarray")
        if ta in seq_t and tb in seq_t:
            if len(a["v"]) != len(b["v"]):
                return f"{path}: length {len(a['v'])} vs {len(b['v'])}"
            for k, (x, y) in enumerate(zip(a["v"], b["v"])):
                d = _json_same(x, y, f"{path}[{k}]")
                if d:
                    return d
            return None
        if ta == "ref" or tb == "ref":
            return None
        if ta != tb:
            return f"{path}: kind {ta} vs {tb}"
        if ta == "dict":
            da = {json.dumps(k, sort_keys=True): v for k, v in a["v"]}
            db = {json.dumps(k, sort_keys=True): v for k, v in b["v"]}
            if set(da) != set(db):
                return f"{path}: keys differ {sorted(set(da) ^ set(db))[:4]}"
            for k in da:
                d = _json_same(da[k], db[k], f"{path}[{k[:30]}]")
                if d:
                    return d
            return None
        if ta == "obj":
            for k in set(a["attrs"]) & set(b["attrs"]):
                d = _json_same(a["attrs"][k], b["attrs"][k], f"{path}.{k}")
                if d:
                    return d
            return None
        return None if a.get("v") == b.get("v") else f"{path}: {a.get('v')} vs {b.get('v')}"
    return None if a == b else f"{path}: {a} vs {b}"


def _open_dicts(v, out, seen):
    if id(v) in seen:
        return
    seen.add(id(v))
    if isinstance(v, sp.V):
        v = v.v
    if isinstance(v, OpenDict):
        out.append(v)
        for x in v.entries.values():
            _open_dicts(x, out, seen)
    elif isinstance(v, dict):
        for x in v.values():
            _open_dicts(x, out, seen)
    elif isinstance(v, (list, tuple)):
        for x in v:
            _open_dicts(x, out, seen)
    elif isinstance(v, Obj):
        for x in v.attrs.values():
            _open_dicts(x, out, seen)


def differential(contract, I, model, repo):
    """-> (verdict, detail): 'agree' | 'differ' | 'skipped'.  The same concrete inputs are run through the
    interpreter (exact rational arithmetic) and through CPython; outcomes, results and argument post-states must
    agree to 1e-9 relative.  A difference is an ENGINE defect (or a float-threshold coincidence), never a finding.
    Inputs are built twice from the same model: the interpreter runs on the first copy (which also discovers which keys
    of open dictionaries the code reads); the second copy, with those keys filled in, is what CPython receives."""
    if contract.summaries or contract.loops or not contract.replayable:
        return "skipped", "contract uses summaries / loop contracts or is not natively callable"
    try:
        sp.TOL[0] = (Fraction(1, 10 ** 9), Fraction(0))
        try:
            # --- interpreter, concrete
            ctx = Ctx(I, [])
            I.new_path(ctx)
            I.loop_specs, I.summaries = {}, {}
            S = sp.Spec(ctx, I, model=model)
            a = contract.inputs(S)
            contract.setup(I, S, a)
            if getattr(contract, "summaries", None) or getattr(contract, "loops", None):
                return "skipped", "inputs() installed summaries"
            ctx.np_floats = bool(contract.np_floats)
            ops.NP_FLOATS[0] = ctx.np_floats
            try:
                res = contract.call(I, S, a)
                mine = {"outcome": "return", "result": enc(res, {})}
            except PyExc as e:
                mine = {"outcome": "raise", "exc": e.exc.cls_name}
            except ops.PyRaise as pr:
                mine = {"outcome": "raise", "exc": pr.cls_name}
            ods = []
            _open_dicts([a.get("args", []), a.get("kwargs", {}), [c.get("args", []) for c in a.get("calls", [])]], ods, set())
            read_keys = {}
            for od in ods:
                read_keys.setdefault(od.name, set()).update(od.entries.keys())
            # --- CPython, on a second copy of the same inputs
            I2 = Interp(repo)
            ctx2 = Ctx(I2, [])
            I2.new_path(ctx2)
            I2.loop_specs, I2.summaries = {}, {}
            S2 = sp.Spec(ctx2, I2, model=model)
            a2 = contract.inputs(S2)
            contract.setup(I2, S2, a2)
            ods2 = []
            _open_dicts([a2.get("args", []), a2.get("kwargs", {}), [c.get("args", []) for c in a2.get("calls", [])]], ods2, set())
            for od in ods2:
                for k in read_keys.get(od.name, ()):
                    if k not in od.entries and od.default is not None and not od.closed and k not in od.deleted:
                        od.entries[k] = od.default(k)
            memo = {}
            req = {"repo": repo, "file": contract.file, "func": contract.func,
                   "args": [enc(x, memo) for x in a2.get("args", [])],
                   "kwargs": {k: enc(v, memo) for k, v in a2.get("kwargs", {}).items()},
                   "class_state": [[f, c, at, enc(v, memo)] for (f, c, at, v) in list(contract.class_state(S2, a2)) + _class_objects(I2)],
                   "np_floats": bool(contract.np_floats)}
            if "calls" in a2:
                req["calls"] = [{"file": c.get("file", contract.file), "func": c["func"],
                                 "args": [enc(x, memo) for x in c.get("args", [])],
                                 "kwargs": {k: enc(v, memo) for k, v in c.get("kwargs", {}).items()}} for c in a2["calls"]]
            p = subprocess.run([VENV_PY, os.path.join(HERE, "native_runner.py")], input=json.dumps(req), capture_output=True, text=True,
                               cwd=repo, timeout=300)
            if p.returncode != 0:
                return "skipped", "native runner error: " + p.stderr[-300:]
            resp = json.loads(p.stdout.splitlines()[-1])
            if mine["outcome"] != resp["outcome"]:
                return "differ", f"outcome {mine['outcome']}:{mine.get('exc', '')} vs native {resp['outcome']}:{resp.get('exc', '')} {str(resp.get('msg', ''))[:80]}"
            if mine["outcome"] == "raise":
                return ("agree", "") if mine["exc"] == resp.get("exc") else ("differ", f"exception {mine['exc']} vs native {resp.get('exc')}")
            d = _json_same(mine["result"], resp["result"])
            if d is None and "calls" not in a:
                post = [enc(x, {}) for x in a.get("args", [])]
                for k, (x, y) in enumerate(zip(post, resp.get("args", []))):
                    d = d or _json_same(x, y, f"arg{k}")
            return ("agree", "") if d is None else ("differ", d)
        finally:
            sp.TOL[0] = None
    except sp.ReplayInvalid as e:
        return "skipped", f"inputs not representable: {e}"
    except (Unsupported, EngineError) as e:
        return "skipped", f"{type(e).__name__}: {e}"
    except Exception as e:
        return "skipped", f"{type(e).__name__}: {e}"
