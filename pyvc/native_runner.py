"""Runs one real function of the repository on concrete inputs (under /venv/bin/python, cwd = repo).

stdin: JSON request written by pyvc.vc.native_replay; stdout (last line): JSON response with the
outcome, the result and the post-state of every argument.  No z3 here: this is the code under test.
"""
import importlib
import io
import json
import sys
import contextlib


def main():
    req = json.load(sys.stdin)
    repo = req["repo"]
    sys.path.insert(0, repo)
    import numpy as np

    memo = {}

    def load(file, qual):
        mod = importlib.import_module(file[:-3].replace("/", "."))
        cur = mod
        for part in qual.split("."):
            cur = getattr(cur, part) if not isinstance(cur, dict) else cur[part]
        return cur

    def raw(cls, name):
        for c in cls.__mro__:
            if name in c.__dict__:
                return c.__dict__[name]
        raise AttributeError(name)

    def dec(j):
        t = j["t"]
        if t == "none":
            return None
        if t in ("bool", "int", "str"):
            return j["v"]
        if t == "npint":
            return np.int64(j["v"])
        if t == "float":
            return np.float64(j["v"]) if req.get("np_floats") else float(j["v"])
        if t == "ref":
            return memo[j["id"]]
        if t == "list":
            out = []
            memo[j["id"]] = out
            out.extend(dec(x) for x in j["v"])
            return out
        if t == "tuple":
            return tuple(dec(x) for x in j["v"])
        if t == "dict":
            out = {}
            memo[j["id"]] = out
            for k, x in j["v"]:
                out[dec(k)] = dec(x)
            return out
        if t == "ndarray":
            dt = {"float": float, "int": int, "bool": bool, "object": object}[j["dtype"]]
            a = np.array([dec(x) for x in j["v"]], dtype=dt)
            memo[j["id"]] = a
            return a
        if t == "obj":
            cls = load(j["file"], j["cls"])
            o = cls.__new__(cls)
            memo[j["id"]] = o
            for k, x in j["attrs"].items():
                object.__setattr__(o, k, dec(x))
            return o
        if t == "class":
            return load(j["file"], j["cls"])
        raise ValueError(t)

    ids = {}

    def enc(v, depth=0):
        if v is None:
            return {"t": "none"}
        if isinstance(v, (bool, np.bool_)):
            return {"t": "bool", "v": bool(v)}
        if isinstance(v, (int, np.integer)):
            return {"t": "int", "v": int(v)}
        if isinstance(v, (float, np.floating)):
            return {"t": "float", "v": repr(float(v))}
        if isinstance(v, str):
            return {"t": "str", "v": v}
        if depth > 12:
            return {"t": "opaque", "v": "depth"}
        if id(v) in ids:
            return {"t": "ref", "id": ids[id(v)]}
        if isinstance(v, (list, tuple)):
            ids[id(v)] = len(ids)
            return {"t": "list" if isinstance(v, list) else "tuple", "id": ids[id(v)], "v": [enc(x, depth + 1) for x in v]}
        if isinstance(v, dict):
            ids[id(v)] = len(ids)
            return {"t": "dict", "id": ids[id(v)], "v": [[enc(k, depth + 1), enc(x, depth + 1)] for k, x in v.items()
                                                       if isinstance(k, (str, int, float, bool, tuple)) or k is None]}
        if isinstance(v, np.ndarray):
            ids[id(v)] = len(ids)
            if v.ndim != 1:
                return {"t": "opaque", "v": f"ndarray shape {v.shape}"}
            dt = "float" if v.dtype.kind == "f" else "int" if v.dtype.kind in "iu" else "bool" if v.dtype.kind == "b" else "object"
            return {"t": "ndarray", "id": ids[id(v)], "dtype": dt, "v": [enc(x, depth + 1) for x in v.tolist()]}
        if hasattr(v, "__dict__") and not isinstance(v, type) and not callable(v):
            ids[id(v)] = len(ids)
            cls = type(v)
            mod = sys.modules.get(cls.__module__)
            f = getattr(mod, "__file__", None)
            rel = None
            if f and f.startswith(repo):
                rel = f[len(repo):].lstrip("/")
            return {"t": "obj", "id": ids[id(v)], "file": rel, "cls": cls.__name__,
                    "attrs": {k: enc(x, depth + 1) for k, x in vars(v).items()}}
        return {"t": "opaque", "v": type(v).__name__}

    args = [dec(x) for x in req["args"]]
    kwargs = {k: dec(v) for k, v in req["kwargs"].items()}
    for (f, c, at, v) in req.get("class_state", []):
        setattr(load(f, c), at, dec(v))
    def resolve(file, func):
        parts = func.split(".")
        mod = importlib.import_module(file[:-3].replace("/", "."))
        fn = getattr(mod, parts[0])
        for p in parts[1:]:
            r = raw(fn, p) if isinstance(fn, type) else getattr(fn, p)
            if isinstance(r, (staticmethod, classmethod)):
                r = getattr(fn, p)
            fn = r
        return fn

    out = {}
    buf = io.StringIO()
    calls = None
    results = []

    class _Res:
        def __init__(self, j):
            self.j = j

        def get(self):
            v = results[self.j["k"]]
            for p in self.j["path"]:
                if isinstance(p, str) and p.startswith("."):
                    v = getattr(v, p[1:])
                else:
                    v = v[p]
            return v

    def dec2(j):
        return _Res(j) if j.get("t") == "result" else dec(j)

    if "calls" in req:
        calls = [(resolve(c["file"], c["func"]), [dec2(x) for x in c["args"]], {k: dec(v) for k, v in c["kwargs"].items()})
                 for c in req["calls"]]
    else:
        fn = resolve(req["file"], req["func"])
    try:
        with contextlib.redirect_stdout(buf):
            if calls is not None:
                for ci, (f, a_, k_) in enumerate(calls):
                    a_[:] = [x.get() if isinstance(x, _Res) else x for x in a_]
                    results.append(f(*a_, **k_))
                res = results
            else:
                res = fn(*args, **kwargs)
        out["outcome"] = "return"
        out["result"] = enc(res)
    except BaseException as e:  # the exception class is part of the observable outcome
        out["outcome"] = "raise"
        out["exc"] = type(e).__name__
        out["msg"] = str(e)[:500]
    if calls is not None:
        out["calls_post"] = [[enc(x) for x in a_] for (f, a_, k_) in calls]
    out["args"] = [enc(x) for x in args]
    out["kwargs"] = {k: enc(v) for k, v in kwargs.items()}
    sys.stdout.write("\n" + json.dumps(out) + "\n")


if __name__ == "__main__":
    main()
