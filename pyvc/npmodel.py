"""Specification-level models of the numpy functions the code base uses (DESIGN 2.2).

These are trusted specifications; `selftest/np_diff.py` differential-tests them against real numpy.
"""
from fractions import Fraction
import z3

from .values import (
    Sym, Arr, Arr2, ClassVal, Obj, Native, NativeModule, OpenDict, LpVar, LpExpr, Unsupported, EngineError,
    NAN, INF, FloatSpecial, Opaque, is_number,
)
from . import ops
from .ops import PyRaise, simp

I = None


def infer_dtype(vals):
    dt = None
    for v in vals:
        d = ops.dtype_of_scalar(v)
        if d == "object":
            return "object"
        if dt is None:
            dt = d
        elif dt != d:
            if "float" in (dt, d):
                dt = "float"
            elif "int" in (dt, d):
                dt = "int"
    return dt or "float"


def dtype_arg(dtype):
    if dtype is None:
        return None
    if isinstance(dtype, Native):
        return {"float": "float", "int": "int", "bool": "bool", "object": "object", "np.float64": "float",
                "np.int64": "int", "np.float32": "float", "np.int32": "int", "np.bool_": "bool",
                "str": "object"}.get(dtype.type_tag or dtype.name, None) or _bad_dtype(dtype)
    if isinstance(dtype, str):
        return {"float": "float", "float64": "float", "int": "int", "int64": "int", "bool": "bool",
                "object": "object", "O": "object"}.get(dtype) or _bad_dtype(dtype)
    _bad_dtype(dtype)


def _bad_dtype(d):
    raise Unsupported(f"dtype {d!r}")


def np_array(ctx, v, dtype=None, copy=True):
    dt = dtype_arg(dtype)
    if isinstance(v, Arr):
        out = v.copy()
        out.is_nd = True
        if dt is not None and dt != out.dtype:
            out = ops.arr_map(lambda x: ops.cast_elem(x, dt), out, dtype=dt)
        elif out.dtype == "object" and not v.is_nd and out.elems is not None:
            out.dtype = infer_dtype(out.elems)
            out.elems = [ops.cast_elem(x, out.dtype) for x in out.elems]
        return out
    if isinstance(v, Arr2):
        return Arr2([list(r) for r in v.rows], v.dtype)
    if isinstance(v, (list, tuple)):
        items = list(v)
        if items and all(isinstance(x, (list, tuple, Arr)) for x in items):
            rows = [I.iterate(x) for x in items]
            if len({len(r) for r in rows}) == 1:
                d2 = dt or infer_dtype([x for r in rows for x in r])
                return Arr2([[ops.cast_elem(x, d2) for x in r] for r in rows], d2)
            raise Unsupported("ragged nested array")
        d = dt or infer_dtype(items)
        return Arr(len(items), elems=[ops.cast_elem(x, d) for x in items], dtype=d)
    if is_number(v) or isinstance(v, (bool, FloatSpecial)):
        return ops.cast_elem(v, dt) if dt else v  # 0-d array folded into the scalar
    if isinstance(v, dict):
        raise Unsupported("np.array of dict")
    from .interp import RangeVal, GenVal

    if isinstance(v, (RangeVal, GenVal)):
        return np_array(ctx, I.iterate(v), dtype)
    raise Unsupported(f"np.array of {type(v).__name__}")


def full(ctx, n, val, dtype=None):
    dt = dtype_arg(dtype) or ops.dtype_of_scalar(val)
    if isinstance(n, tuple):
        if len(n) == 1:
            n = n[0]
        elif len(n) == 2 and all(isinstance(k, int) for k in n):
            return Arr2([[ops.cast_elem(val, dt)] * n[1] for _ in range(n[0])], dt)
        else:
            raise Unsupported("np.full shape")
    v = ops.cast_elem(val, dt)
    if isinstance(n, int):
        return Arr(n, elems=[v] * n, dtype=dt)
    n = ops.to_int_trunc(n) if not (isinstance(n, Sym) and n.kind == "int") else n
    return Arr(ops.nonneg_len(n), fn=lambda i: v, dtype=dt)


def length_like(x):
    if isinstance(x, Arr):
        return x.length
    if isinstance(x, (list, tuple)):
        return len(x)
    raise Unsupported("zeros_like of a non-sequence")


def like_dtype(x):
    if isinstance(x, Arr):
        if x.dtype == "object" and x.elems is not None:
            return infer_dtype(x.elems)
        return x.dtype
    return infer_dtype(list(x))


# ---- symbolic reductions -----------------------------------------------------------------------

SUM_REGISTRY = []  # (prefix_fn, arr, length_term) per path; reset by Harness


_JVAR = z3.Int("sum!j")


def _contains(e, v):
    vid = v.get_id()
    seen = set()
    stack = [e]
    while stack:
        x = stack.pop()
        i = x.get_id()
        if i in seen:
            continue
        seen.add(i)
        if i == vid:
            return True
        stack.extend(x.children())
    return False


def _prefix_sum_fn(ctx, summand):
    """Prefix-sum function of the summand (a z3 real term over _JVAR), shared between syntactically equal
    summands: PS(0) = 0, PS(t+1) = PS(t) + summand(t) for t >= 0 (instantiated at the indices in use)."""
    memo = ctx.__dict__.setdefault("_ps_memo", {})
    key = summand.sexpr()
    if key in memo:
        return memo[key]
    ctx.counter += 1
    name = f"psum!{ctx.counter}"
    if z3.is_app(summand) and summand.num_args() == 1 and summand.arg(0).eq(_JVAR) and \
            summand.decl().kind() == z3.Z3_OP_UNINTERPRETED:
        name = f"psum[{summand.decl().name()}]!{ctx.counter}"
    S = z3.Function(name, z3.IntSort(), z3.RealSort())
    ctx.facts.append(S(0) == 0)
    ctx.sums.append((S, lambda t, summand=summand: z3.substitute(summand, (_JVAR, t))))
    memo[key] = S
    return S


def _sum_linear(ctx, e, n):
    """Sum_{j<n} e(j) decomposed by linearity into prefix sums of atomic summands."""
    if not _contains(e, _JVAR):
        return z3.ToReal(n) * e
    k = e.decl().kind() if z3.is_app(e) else None
    ch = e.children()
    if k == z3.Z3_OP_ADD:
        return z3.Sum([_sum_linear(ctx, c, n) for c in ch])
    if k == z3.Z3_OP_SUB:
        out = _sum_linear(ctx, ch[0], n)
        for c in ch[1:]:
            out = out - _sum_linear(ctx, c, n)
        return out
    if k == z3.Z3_OP_UMINUS:
        return -_sum_linear(ctx, ch[0], n)
    if k == z3.Z3_OP_MUL:
        dep = [c for c in ch if _contains(c, _JVAR)]
        if len(dep) == 1:
            coef = z3.Product([c for c in ch if not _contains(c, _JVAR)])
            return coef * _sum_linear(ctx, dep[0], n)
    if k == z3.Z3_OP_DIV and not _contains(ch[1], _JVAR):
        return _sum_linear(ctx, ch[0], n) / ch[1]
    if k == z3.Z3_OP_TO_REAL and z3.is_app(ch[0]) and ch[0].decl().kind() in (z3.Z3_OP_ADD, z3.Z3_OP_SUB, z3.Z3_OP_UMINUS):
        return _sum_linear(ctx, z3.simplify(e, som=True), n) if False else _prefix_sum_fn(ctx, e)(n)
    S = _prefix_sum_fn(ctx, e)
    _sign_lemma(ctx, S, e, n)
    return S(n)


def _sign_lemma(ctx, S, summand, n):
    """Induction lemma, applied when its premise is entailed at an arbitrary index of the range:
    (forall 0 <= j < n. summand(j) >= 0)  ->  0 <= PS(t) <= PS(t') for 0 <= t <= t' <= n  (dually <= 0).
    The induction schema itself is the trusted part (DESIGN 2.4)."""
    done = ctx.__dict__.setdefault("_sign_done", set())
    key = (S.name(), n.get_id())
    if key in done:
        return
    done.add(key)
    ctx.counter += 1
    j = z3.Int(f"sl!{ctx.counter}")
    ctx.add_index(j)
    rng = z3.And(j >= 0, j < n)
    sj = z3.substitute(summand, (_JVAR, j))
    for sign, name in ((1, "nonneg"), (-1, "nonpos")):
        prem = z3.Implies(rng, sj >= 0 if sign == 1 else sj <= 0)
        if ctx.entails(prem):
            ctx.notes.append(f"sum sign lemma ({name}) applied to {S.name()}")
            if sign == 1:
                ctx.facts.append(z3.Implies(n >= 0, S(n) >= 0))
                ctx.quantified.append((n, lambda t, S=S: z3.And(S(t) >= 0, S(t) <= S(t + 1), S(t + 1) <= S(n))))
            else:
                ctx.facts.append(z3.Implies(n >= 0, S(n) <= 0))
                ctx.quantified.append((n, lambda t, S=S: z3.And(S(t) <= 0, S(t) >= S(t + 1), S(t + 1) >= S(n))))
            break


def sym_sum(ctx, arr):
    """Sum of a symbolic-length series, normalised by linearity: sums of point-wise linear combinations
    of series are the same linear combinations of the series' prefix sums (so linearity of summation
    needs no induction); each atomic summand gets one shared prefix-sum function."""
    lt = ops.as_int_term(arr.length)
    ctx.add_index(lt - 1)
    e = ops.as_real(arr.get(_JVAR))
    e = z3.simplify(e, som=False)
    return ops.simp(Sym(_sum_linear(ctx, e, lt), "float"))


def sym_all(ctx, arr):
    """all(arr) over a symbolic-length boolean series: a fresh Bool b with b -> arr(i) at every index
    used, and (not b) -> exists witness index."""
    b = ctx.fresh("all", "bool")
    w = ctx.fresh("all_w", "int")
    lt = ops.as_int_term(arr.length)
    ctx.quantified.append((lt, lambda i, arr=arr, b=b: z3.Implies(b.t, ops.as_bool_term(arr.get(i)))))
    ctx.facts.append(z3.Implies(z3.Not(b.t), z3.And(w.t >= 0, w.t < lt, z3.Not(ops.as_bool_term(arr.get(w.t))))))
    ctx.add_index(w.t)
    return b


def sym_any(ctx, arr):
    b = ctx.fresh("any", "bool")
    w = ctx.fresh("any_w", "int")
    lt = ops.as_int_term(arr.length)
    ctx.quantified.append((lt, lambda i, arr=arr, b=b: z3.Implies(z3.Not(b.t), z3.Not(ops.as_bool_term(arr.get(i))))))
    ctx.facts.append(z3.Implies(b.t, z3.And(w.t >= 0, w.t < lt, ops.as_bool_term(arr.get(w.t)))))
    ctx.add_index(w.t)
    return b


def sym_extreme(ctx, arr, which):
    """min/max of a symbolic-length series: fresh value m, attained at a witness, bounding every element."""
    m = ctx.fresh(which, "float" if arr.dtype != "int" else "int")
    w = ctx.fresh(which + "_w", "int")
    lt = ops.as_int_term(arr.length)
    ctx.facts.append(z3.And(w.t >= 0, w.t < lt))
    wv = arr.get(w.t)
    ctx.facts.append(ops.as_real(m) == ops.as_real(wv))
    if which == "min":
        ctx.quantified.append((lt, lambda i: ops.as_real(m) <= ops.as_real(arr.get(i))))
    else:
        ctx.quantified.append((lt, lambda i: ops.as_real(m) >= ops.as_real(arr.get(i))))
    ctx.add_index(w.t)
    return m


def reduce_sum(ctx, a):
    if type(a).__name__ == "MaskSel":
        base, mask = a.base, a.mask
        zero = 0 if base.dtype in ("int", "bool") else Fraction(0)
        if base.concrete_len():
            picked = Arr(base.length, elems=[ops.ite(I.truth(mask.get(k)), base.get(k), zero) for k in range(base.length)],
                         dtype=base.dtype)
        else:
            picked = Arr(base.length, fn=lambda i: ops.ite(I.truth(mask.get(i)), base.get(i), zero), dtype=base.dtype)
        return reduce_sum(ctx, picked)
    if isinstance(a, Arr):
        if a.concrete_len():
            acc = 0 if a.dtype in ("int", "bool") else Fraction(0)
            for k in range(a.length):
                acc = I.binop("+", acc, a.get(k))
            return acc
        return sym_sum(ctx, a)
    if isinstance(a, (list, tuple)):
        acc = 0
        for x in a:
            acc = I.binop("+", acc, x)
        return acc
    if isinstance(a, Arr2):
        acc = Fraction(0)
        for r in a.rows:
            for x in r:
                acc = I.binop("+", acc, x)
        return acc
    return a


def reduce_all(ctx, a):
    if isinstance(a, Arr) and not a.concrete_len():
        return sym_all(ctx, a)
    if isinstance(a, (Arr, list, tuple)):
        acc = True
        for x in I.iterate(a):
            t = I.truth(x)
            if t is False:
                return False
            if t is True:
                continue
            acc = t if acc is True else ops.s_and(acc, t)
        return acc
    return I.truth(a)


def reduce_any(ctx, a):
    if isinstance(a, Arr) and not a.concrete_len():
        return sym_any(ctx, a)
    if isinstance(a, (Arr, list, tuple)):
        acc = False
        for x in I.iterate(a):
            t = I.truth(x)
            if t is True:
                return True
            if t is False:
                continue
            acc = t if acc is False else ops.s_or(acc, t)
        return acc
    return I.truth(a)


def reduce_extreme(ctx, a, which):
    if isinstance(a, Arr) and not a.concrete_len():
        return sym_extreme(ctx, a, which)
    items = I.iterate(a) if isinstance(a, (Arr, list, tuple)) else [a]
    if not items:
        raise PyRaise("ValueError", "zero-size array to reduction operation")
    out = items[0]
    for x in items[1:]:
        out = ops.smin(out, x) if which == "min" else ops.smax(out, x)
    return out


def as_arr(ctx, x):
    if isinstance(x, Arr):
        return x if x.is_nd else np_array(ctx, x)
    if isinstance(x, (list, tuple)):
        return np_array(ctx, x)
    return x


def ew2(f):
    """Lift a scalar binary function element-wise with numpy broadcasting of scalars."""
    def g(ctx, a, b, *rest, **kw):
        a, b = as_arr(ctx, a), as_arr(ctx, b)
        if isinstance(a, Arr) or isinstance(b, Arr):
            if isinstance(a, Arr) and isinstance(b, Arr):
                if not ops.same_length(a, b):
                    if b.concrete_len() and b.length == 1:
                        b = b.get(0)
                        return g(ctx, a, b)
                    if a.concrete_len() and a.length == 1:
                        return g(ctx, a.get(0), b)
                    raise Unsupported(f"element-wise op on lengths {a.length} / {b.length}")
                dt = "float" if "float" in (a.dtype, b.dtype) else a.dtype
                if a.concrete_len():
                    return Arr(a.length, elems=[f(a.get(k), b.get(k)) for k in range(a.length)], dtype=dt)
                a, b = ops._snap(a), ops._snap(b)
                return Arr(a.length, fn=lambda i: f(a.get(i), b.get(i)), dtype=dt)
            if isinstance(a, Arr):
                dt = "float" if "float" in (a.dtype, ops.dtype_of_scalar(b)) else a.dtype
                return ops.arr_map(lambda x: f(x, b), a, dtype=dt)
            dt = "float" if "float" in (b.dtype, ops.dtype_of_scalar(a)) else b.dtype
            return ops.arr_map(lambda y: f(a, y), b, dtype=dt)
        return f(a, b)
    return g


def ew1(f, dtype=None):
    def g(ctx, a, *rest, **kw):
        a = as_arr(ctx, a)
        if isinstance(a, Arr):
            return ops.arr_map(f, a, dtype=dtype)
        if isinstance(a, Arr2):
            return Arr2([[f(x) for x in r] for r in a.rows], dtype or a.dtype)
        return f(a)
    return g


def install(interp):
    global I
    I = interp
    ns = {}

    def reg(name, f, tag=None):
        ns[name] = Native("np." + name, f, type_tag=tag)

    reg("array", lambda ctx, v, dtype=None, copy=True: np_array(ctx, v, dtype))
    def asarray(ctx, v, dtype=None):
        # numpy: no copy when the input already is an ndarray of the requested dtype - the result ALIASES the argument
        dt = dtype_arg(dtype)
        if isinstance(v, Arr) and v.is_nd and (dt is None or dt == v.dtype):
            return v
        return np_array(ctx, v, dtype)

    reg("asarray", asarray)
    reg("asanyarray", asarray)
    reg("zeros", lambda ctx, n, dtype=None: full(ctx, n, Fraction(0) if dtype_arg(dtype) in (None, "float") else 0, dtype or "float"))
    reg("ones", lambda ctx, n, dtype=None: full(ctx, n, Fraction(1) if dtype_arg(dtype) in (None, "float") else 1, dtype or "float"))
    reg("empty", lambda ctx, n, dtype=None: full(ctx, n, Fraction(0), dtype or "float"))
    reg("full", lambda ctx, n, v, dtype=None: full(ctx, n, v if dtype is not None or not isinstance(v, int) or isinstance(v, bool) else v, dtype))
    reg("zeros_like", lambda ctx, x, dtype=None: full(ctx, length_like(x), 0, dtype or like_dtype(x)))
    # (contents of np.empty_like are unspecified; what matters to the contracts is its length and its DTYPE)
    reg("empty_like", lambda ctx, x, dtype=None: full(ctx, length_like(x), 0, dtype or like_dtype(x)))
    reg("ones_like", lambda ctx, x, dtype=None: full(ctx, length_like(x), 1, dtype or like_dtype(x)))
    reg("full_like", lambda ctx, x, v, dtype=None: full(ctx, length_like(x), v, dtype or like_dtype(x)))

    def where(ctx, cond, *xy):
        cond = as_arr(ctx, cond)
        if not xy:
            # indices where true: data dependent; forks per element (concrete length only)
            if not isinstance(cond, Arr) or not cond.concrete_len():
                raise Unsupported("np.where(cond) on a symbolic-length series")
            idx = []
            for k in range(cond.length):
                if ctx.branch(I.truth(cond.get(k))):
                    idx.append(k)
            return (Arr(len(idx), elems=idx, dtype="int"),)
        x, y = as_arr(ctx, xy[0]), as_arr(ctx, xy[1])
        if not isinstance(cond, Arr):
            c = I.truth(cond)
            if isinstance(x, Arr) or isinstance(y, Arr):
                ref = x if isinstance(x, Arr) else y
                cond = Arr(ref.length, fn=lambda i: c, dtype="bool")
            else:
                return ops.ite(c, x, y)

        cond, x, y = ops._snap(cond), ops._snap(x), ops._snap(y)

        def pick(i):
            xv = x.get(i) if isinstance(x, Arr) else x
            yv = y.get(i) if isinstance(y, Arr) else y
            return ops.ite(I.truth(cond.get(i)), xv, yv)

        dx = x.dtype if isinstance(x, Arr) else ops.dtype_of_scalar(x)
        dy = y.dtype if isinstance(y, Arr) else ops.dtype_of_scalar(y)
        dt = "float" if "float" in (dx, dy) else ("object" if "object" in (dx, dy) else dx)
        for o in (x, y):
            if isinstance(o, Arr) and not ops.same_length(o, cond):
                raise Unsupported("np.where operands of different length")
        if cond.concrete_len():
            return Arr(cond.length, elems=[ops.cast_elem(pick(k), dt) for k in range(cond.length)], dtype=dt)
        return Arr(cond.length, fn=lambda i: ops.cast_elem(pick(i), dt), dtype=dt)

    reg("where", where)

    def linspace(ctx, start=None, stop=None, num=50, endpoint=True, **kw):
        if kw or start is None or stop is None:
            raise Unsupported(f"np.linspace arguments {sorted(kw)}")
        a, b = start, stop
        if not isinstance(num, int):
            raise Unsupported("np.linspace with symbolic num")
        if num == 0:
            return Arr(0, elems=[], dtype="float")
        if num == 1:
            return Arr(1, elems=[ops.to_float(a)], dtype="float")
        step = ops.scalar_binop("/", ops.scalar_binop("-", b, a), (num - 1) if endpoint else num)
        return Arr(num, elems=[ops.to_float(ops.scalar_binop("+", a, ops.scalar_binop("*", k, step))) for k in range(num)], dtype="float")

    reg("linspace", linspace)

    def arange(ctx, *a):
        if all(isinstance(x, int) for x in a):
            r = list(range(*a))
            return Arr(len(r), elems=r, dtype="int")
        if len(a) == 1:
            return Arr(ops.nonneg_len(a[0]), fn=lambda i: i if isinstance(i, int) else Sym(i, "int"), dtype="int")
        raise Unsupported("np.arange with symbolic bounds")

    reg("arange", arange)

    def concatenate(ctx, seqs, axis=0):
        items = [as_arr(ctx, s) for s in I.iterate(seqs)]
        out = None
        for s in items:
            if not isinstance(s, Arr):
                raise PyRaise("ValueError", "zero-dimensional arrays cannot be concatenated")
            out = s if out is None else I.concat(out, s, is_nd=True)
        return out

    reg("concatenate", concatenate)
    reg("hstack", concatenate)

    def append(ctx, a, v, axis=None):
        a = as_arr(ctx, a)
        v = as_arr(ctx, v)
        if not isinstance(v, Arr):
            v = Arr(1, elems=[v], dtype=ops.dtype_of_scalar(v))
        if not isinstance(a, Arr):
            a = Arr(1, elems=[a], dtype=ops.dtype_of_scalar(a))
        return I.concat(a, v, is_nd=True)

    reg("append", append)

    reg("sum", lambda ctx, a, axis=None: reduce_sum(ctx, a))
    reg("nansum", lambda ctx, a, axis=None: reduce_sum(ctx, a))
    reg("all", lambda ctx, a, axis=None: reduce_all(ctx, a))
    reg("any", lambda ctx, a, axis=None: reduce_any(ctx, a))
    reg("min", lambda ctx, a, axis=None: reduce_extreme(ctx, a, "min"))
    reg("max", lambda ctx, a, axis=None: reduce_extreme(ctx, a, "max"))
    reg("amin", lambda ctx, a, axis=None: reduce_extreme(ctx, a, "min"))
    reg("amax", lambda ctx, a, axis=None: reduce_extreme(ctx, a, "max"))

    def mean(ctx, a, axis=None):
        a = as_arr(ctx, a)
        if not isinstance(a, Arr):
            return ops.to_float(a)
        return I.binop("/", reduce_sum(ctx, a), a.length)

    reg("mean", mean)
    reg("average", mean)

    def cumsum(ctx, a):
        a = as_arr(ctx, a)
        if not a.concrete_len():
            raise Unsupported("np.cumsum of a symbolic-length series")
        out, acc = [], (0 if a.dtype == "int" else Fraction(0))
        for k in range(a.length):
            acc = I.binop("+", acc, a.get(k))
            out.append(acc)
        return Arr(len(out), elems=out, dtype=a.dtype)

    reg("cumsum", cumsum)

    def prod(ctx, a):
        acc = 1
        for x in I.iterate(as_arr(ctx, a)):
            acc = I.binop("*", acc, x)
        return acc

    reg("prod", prod)

    reg("minimum", ew2(ops.smin))
    reg("maximum", ew2(ops.smax))
    reg("fmin", ew2(ops.smin))
    reg("fmax", ew2(ops.smax))
    reg("add", ew2(lambda x, y: ops.scalar_binop("+", x, y)))
    reg("subtract", ew2(lambda x, y: ops.scalar_binop("-", x, y)))
    reg("multiply", ew2(lambda x, y: ops.scalar_binop("*", x, y)))
    reg("divide", ew2(lambda x, y: ops.scalar_binop("/", x, y)))
    reg("true_divide", ew2(lambda x, y: ops.scalar_binop("/", x, y)))
    reg("power", ew2(lambda x, y: ops.scalar_binop("**", x, y)))
    reg("logical_and", ew2(lambda x, y: ops.s_and(I.truth(x), I.truth(y))))
    reg("logical_or", ew2(lambda x, y: ops.s_or(I.truth(x), I.truth(y))))
    reg("logical_not", ew1(lambda x: ops.s_not(I.truth(x)), dtype="bool"))
    reg("abs", ew1(ops.scalar_abs))
    reg("absolute", ew1(ops.scalar_abs))
    reg("negative", ew1(ops.scalar_neg))
    reg("floor", ew1(lambda x: ops.to_float(I.native_modules["math"].ns["floor"].fn(None, x)), dtype="float"))
    reg("ceil", ew1(lambda x: ops.to_float(I.native_modules["math"].ns["ceil"].fn(None, x)), dtype="float"))
    reg("isnan", ew1(lambda x: x is NAN, dtype="bool"))
    reg("isinf", ew1(lambda x: x is INF, dtype="bool"))
    reg("isfinite", ew1(lambda x: not isinstance(x, FloatSpecial), dtype="bool"))
    reg("nan_to_num", ew1(lambda x: Fraction(0) if x is NAN else x))
    reg("sign", ew1(lambda x: ops.ite(ops.scalar_compare(">", x, 0), 1, ops.ite(ops.scalar_compare("<", x, 0), -1, 0))))

    def np_round(ctx, a, decimals=0):
        f = lambda x: ops.to_float(ops.py_round(x, decimals)) if not (isinstance(x, int) or (isinstance(x, Sym) and x.kind == "int")) else x
        return ew1(f)(ctx, a)

    reg("round", np_round)
    reg("around", np_round)

    def clip(ctx, a, lo=None, hi=None, a_min=None, a_max=None):
        lo = a_min if lo is None else lo
        hi = a_max if hi is None else hi
        if isinstance(lo, (Arr, list, tuple)) or isinstance(hi, (Arr, list, tuple)):
            # numpy: minimum(maximum(a, lo), hi), element-wise with broadcasting
            r = a
            if lo is not None:
                r = ew2(ops.smax)(ctx, r, lo)
            if hi is not None:
                r = ew2(ops.smin)(ctx, r, hi)
            return r

        def f(x):
            if lo is not None:
                x = ops.smax(x, lo)
            if hi is not None:
                x = ops.smin(x, hi)
            return x
        return ew1(f)(ctx, a)

    reg("clip", clip)

    def roll(ctx, a, shift):
        a = as_arr(ctx, a)
        if not a.concrete_len() or not isinstance(shift, int):
            raise Unsupported("np.roll with symbolic length or shift")
        n = a.length
        els = [a.get((k - shift) % n) for k in range(n)]
        return Arr(n, elems=els, dtype=a.dtype)

    reg("roll", roll)

    def squeeze(ctx, a, axis=None):
        if isinstance(a, Arr) and a.concrete_len() and a.length == 1:
            return a.get(0)
        if isinstance(a, Arr2) and len(a.rows) == 1:
            return Arr(len(a.rows[0]), elems=list(a.rows[0]), dtype=a.dtype)
        return a

    reg("squeeze", squeeze)
    reg("flip", lambda ctx, a, axis=None: Arr(a.length, elems=list(reversed(I.iterate(a))), dtype=a.dtype))
    reg("copy", lambda ctx, a: a.copy() if isinstance(a, Arr) else a)
    reg("ravel", lambda ctx, a: a)

    def repeat(ctx, a, n):
        if isinstance(a, Arr) or isinstance(a, (list, tuple)):
            items = I.iterate(a)
            if not isinstance(n, int):
                raise Unsupported("np.repeat symbolic count of a sequence")
            els = [x for x in items for _ in range(n)]
            return Arr(len(els), elems=els, dtype=infer_dtype(els))
        return full(ctx, n, a)

    reg("repeat", repeat)

    def tile(ctx, a, n):
        items = I.iterate(as_arr(ctx, a)) if isinstance(a, (Arr, list, tuple)) else [a]
        if not isinstance(n, int):
            raise Unsupported("np.tile symbolic count")
        els = items * n
        return Arr(len(els), elems=els, dtype=infer_dtype(els))

    reg("tile", tile)

    def diff(ctx, a):
        a = as_arr(ctx, a)
        if a.concrete_len():
            els = [I.binop("-", a.get(k + 1), a.get(k)) for k in range(a.length - 1)]
            return Arr(len(els), elems=els, dtype=a.dtype)
        ln = ops.smax(ops.scalar_binop("-", a.length, 1), 0)
        a = ops._snap(a)
        return Arr(ln, fn=lambda i: I.binop("-", a.get(i + 1), a.get(i)), dtype=a.dtype)

    reg("diff", diff)

    def argextreme(which):
        def f(ctx, a):
            items = I.iterate(as_arr(ctx, a))
            best, bi = items[0], 0
            for k, x in enumerate(items[1:], 1):
                c = ops.scalar_compare("<" if which == "min" else ">", x, best)
                if ctx.branch(c):
                    best, bi = x, k
            return bi
        return f

    reg("argmin", argextreme("min"))
    reg("argmax", argextreme("max"))

    def isclose(ctx, a, b, rtol=Fraction(1, 10 ** 5), atol=Fraction(1, 10 ** 8)):
        def f(x, y):
            d = ops.scalar_abs(ops.scalar_binop("-", x, y))
            bound = ops.scalar_binop("+", atol, ops.scalar_binop("*", rtol, ops.scalar_abs(y)))
            return ops.scalar_compare("<=", d, bound)
        return ew2(f)(ctx, a, b)

    reg("isclose", isclose)

    def size(ctx, a, axis=None):
        if axis is not None:
            raise Unsupported("np.size with an axis")
        if isinstance(a, Arr):
            return a.length
        if isinstance(a, (list, tuple)):
            return len(a)
        if isinstance(a, Arr2):
            return sum(len(r) for r in a.rows)
        return 1  # a scalar

    reg("size", size)
    reg("allclose", lambda ctx, a, b, rtol=Fraction(1, 10 ** 5), atol=Fraction(1, 10 ** 8): reduce_all(ctx, isclose(ctx, a, b, rtol, atol)))
    reg("array_equal", lambda ctx, a, b: reduce_all(ctx, ops.arr_binop("==", as_arr(ctx, a), as_arr(ctx, b))))
    reg("isscalar", lambda ctx, a: is_number(a) or isinstance(a, (bool, str)))
    reg("count_nonzero", lambda ctx, a: reduce_sum(ctx, ops.arr_map(lambda x: ops.ite(I.truth(x), 1, 0), as_arr(ctx, a), dtype="int")))
    reg("nonzero", lambda ctx, a: where(ctx, a))
    reg("dot", lambda ctx, a, b: reduce_sum(ctx, ops.arr_binop("*", as_arr(ctx, a), as_arr(ctx, b))))
    reg("sqrt", lambda ctx, a: (_ for _ in ()).throw(Unsupported("np.sqrt")))
    reg("exp", lambda ctx, a: (_ for _ in ()).throw(Unsupported("np.exp")))
    reg("log", lambda ctx, a: (_ for _ in ()).throw(Unsupported("np.log")))

    class _Errstate:
        pass

    reg("errstate", lambda ctx, **kw: None)
    reg("seterr", lambda ctx, **kw: None)
    reg("set_printoptions", lambda ctx, **kw: None)

    ns["nan"] = NAN
    ns["inf"] = INF
    ns["pi"] = Fraction("3.141592653589793")
    reg("ndarray", lambda ctx, *a, **k: (_ for _ in ()).throw(Unsupported("np.ndarray()")), tag="ndarray")
    reg("number", lambda ctx, *a: (_ for _ in ()).throw(Unsupported("np.number()")), tag="np.number")
    reg("floating", lambda ctx, *a: (_ for _ in ()).throw(Unsupported("np.floating()")), tag="np.floating")
    reg("integer", lambda ctx, *a: (_ for _ in ()).throw(Unsupported("np.integer()")), tag="np.integer")
    reg("float64", lambda ctx, x=0: ops.to_float(x), tag="np.float64")
    reg("float32", lambda ctx, x=0: ops.to_float(x), tag="np.float32")
    reg("int64", lambda ctx, x=0: ops.to_int_trunc(x), tag="np.int64")
    reg("int32", lambda ctx, x=0: ops.to_int_trunc(x), tag="np.int32")
    reg("bool_", lambda ctx, x=False: I.truth(x), tag="np.bool_")
    ns["float_"] = ns["float64"]
    ns["testing"] = NativeModule("np.testing", {})
    ns["random"] = NativeModule("np.random", {})
    interp.native_modules["numpy"] = NativeModule("numpy", ns)


# ------------------------------------------------------------------------------------------------


def arr_attr(I_, a, name):
    ctx = I_.ctx

    def N(f):
        return Native(f"ndarray.{name}", f)

    if name == "sum":
        return N(lambda ctx, axis=None: reduce_sum(ctx, a))
    if name == "all":
        return N(lambda ctx, axis=None: reduce_all(ctx, a))
    if name == "any":
        return N(lambda ctx, axis=None: reduce_any(ctx, a))
    if name == "min":
        return N(lambda ctx, axis=None: reduce_extreme(ctx, a, "min"))
    if name == "max":
        return N(lambda ctx, axis=None: reduce_extreme(ctx, a, "max"))
    if name == "mean":
        return N(lambda ctx, axis=None: I_.binop("/", reduce_sum(ctx, a), a.length))
    if name == "copy":
        return N(lambda ctx: a.copy())
    if name == "tolist":
        return N(lambda ctx: list(I_.iterate(a)) if a.concrete_len() else Arr(a.length, fn=a.fn, dtype=a.dtype, is_nd=False))
    if name == "astype":
        def astype(ctx, t):
            dt = dtype_arg(t)
            return ops.arr_map(lambda x: ops.cast_elem(x, dt), a, dtype=dt)
        return N(astype)
    if name == "shape":
        return (a.length,)
    if name == "size":
        return a.length
    if name == "ndim":
        return 1
    if name == "dtype":
        return Opaque("dtype:" + a.dtype)
    if name == "T":
        return a
    if name in ("flatten", "ravel", "squeeze"):
        if name == "squeeze":
            return N(lambda ctx: a.get(0) if a.concrete_len() and a.length == 1 else a)
        return N(lambda ctx: a.copy())
    if name == "round":
        return N(lambda ctx, decimals=0: I_.native_modules["numpy"].ns["round"].fn(ctx, a, decimals))
    if name == "clip":
        return N(lambda ctx, lo=None, hi=None: I_.native_modules["numpy"].ns["clip"].fn(ctx, a, lo, hi))
    if name == "item":
        return N(lambda ctx: a.get(0))
    if name == "fill":
        def fill(ctx, v):
            v = ops.cast_elem(v, a.dtype)
            a.elems, a.fn = (None, (lambda i: v)) if not a.concrete_len() else ([v] * a.length, None)
        return N(fill)
    if name == "cumsum":
        return N(lambda ctx: I_.native_modules["numpy"].ns["cumsum"].fn(ctx, a))
    if name == "argmin":
        return N(lambda ctx: I_.native_modules["numpy"].ns["argmin"].fn(ctx, a))
    if name == "argmax":
        return N(lambda ctx: I_.native_modules["numpy"].ns["argmax"].fn(ctx, a))
    if name == "reshape":
        return N(lambda ctx, *s: a)
    if not a.is_nd:
        # symbolic-length Python list
        if name == "append":
            def app(ctx, x):
                ext = I_.concat(a, Arr(1, elems=[x], dtype=ops.dtype_of_scalar(x), is_nd=False), is_nd=False)
                if isinstance(ext, list):
                    ext = Arr(len(ext), elems=ext, dtype=a.dtype, is_nd=False)
                a.length, a.elems, a.fn = ext.length, ext.elems, ext.fn
                if a.dtype != ops.dtype_of_scalar(x):
                    a.dtype = "object" if "object" in (a.dtype, ops.dtype_of_scalar(x)) else "float"
            return N(app)
        if name == "copy":
            return N(lambda ctx: a.copy())
    from .interp import ExcVal, PyExc

    raise PyExc(ExcVal("AttributeError", (f"'ndarray' object has no attribute '{name}'",)))


def arr2_attr(I_, a, name):
    def N(f):
        return Native(f"ndarray2.{name}", f)

    if name == "shape":
        return (len(a.rows), len(a.rows[0]) if a.rows else 0)
    if name == "T":
        return Arr2([list(c) for c in zip(*a.rows)], a.dtype)
    if name == "sum":
        def s(ctx, axis=None):
            if axis is None:
                return reduce_sum(ctx, a)
            if axis == 0:
                cols = list(zip(*a.rows))
                els = [reduce_sum(ctx, list(c)) for c in cols]
                return Arr(len(els), elems=els, dtype=a.dtype)
            els = [reduce_sum(ctx, list(r)) for r in a.rows]
            return Arr(len(els), elems=els, dtype=a.dtype)
        return N(s)
    raise Unsupported(f"2-D array attribute {name}")
