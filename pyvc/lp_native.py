"""Native check of an LP counter-model (runs under /venv/bin/python, cwd = repo): build the month
constraints of one resource with the REAL Optimizer builder and REAL PuLP variables for a concrete horizon,
plug in the candidate allocation, and report whether every real constraint holds while the statement's
ledger is violated."""
import json
import sys


def main():
    req = json.load(sys.stdin)
    sys.path.insert(0, req["repo"])
    import numpy as np
    from pulp import LpVariable
    from src.optimizer.optimizer import Optimizer
    from src.food_system.food import Food

    n = req["n"]
    c = req["consts"]

    class _Stored:
        pass

    st = _Stored()
    st.initial_available = Food(c["INITIAL_STORED_FOOD"], 0, 0)

    class _Crops:
        pass

    oc = _Crops()
    oc.production = Food(np.array(req["series"]["crop_production"]), np.zeros(n), np.zeros(n), "billion kcals each month",
                         "thousand tons each month", "thousand tons each month")
    consts = {
        "NMONTHS": n, "STORE_FOOD_BETWEEN_YEARS": req["store"], "stored_food": st,
        "STORED_FOOD_WASTE_RETAIL": c["STORED_FOOD_WASTE_RETAIL"], "MEAT_WASTE_RETAIL": c["MEAT_WASTE_RETAIL"],
        "CROP_WASTE_RETAIL": c["CROP_WASTE_RETAIL"], "meat_summed_consumption": c["meat_summed_consumption"],
        "inputs": {"INCLUDE_FAT": False, "INCLUDE_PROTEIN": False, "OG_USE_BETTER_ROTATION": False},
        "INITIAL_HARVEST_DURATION_IN_MONTHS": 8, "DELAY": {"ROTATION_CHANGE_IN_MONTHS": 2},
        "OG_FRACTION_FAT": 0, "OG_FRACTION_PROTEIN": 0, "OG_ROTATION_FRACTION_FAT": 0, "OG_ROTATION_FRACTION_PROTEIN": 0,
    }
    tc = {
        "outdoor_crops": oc,
        "each_month_meat_slaughtered": Food(np.array(req["series"]["each_month_meat_slaughtered"]), np.zeros(n), np.zeros(n),
                                            "billion kcals each month", "thousand tons each month", "thousand tons each month"),
        "max_consumed_culled_kcals_each_month": np.array(req["series"]["max_consumed_culled_kcals_each_month"]),
    }
    Food.conversions.set_nutrition_requirements(2100, 47, 51, False, False, 1e6)
    opt = Optimizer(consts, tc)
    opt.optimization_type = req["otype"]
    variables = dict(opt.initial_variables)
    for fam, vals in req["values"].items():
        vs = []
        for m, x in enumerate(vals):
            v = LpVariable(f"{fam}_{m}", lowBound=0)
            v.varValue = x
            vs.append(v)
        variables[fam] = vs
    builder = getattr(opt, req["builder"])
    bad, total = [], 0
    for m in range(n):
        for name, con in builder(m, variables).items():
            total += 1
            if isinstance(con, bool):
                if not con:
                    bad.append((m, name, "False"))
                continue
            if not con.valid(1e-6):
                bad.append((m, name, con.value()))
    for fam, vs in variables.items():
        if isinstance(vs, list):
            for m, v in enumerate(vs):
                if hasattr(v, "varValue") and v.varValue is not None and v.varValue < -1e-9:
                    bad.append((m, fam, "negative"))
    # the statement's ledger, evaluated on plain numbers
    g = lambda w: 1.0 / (1.0 - c[w] / 100.0)
    val = req["values"]
    violated, where = False, None
    if req["resource"] == "meat":
        eaten = slaughtered = 0.0
        for m in range(n):
            eaten += val["meat_eaten"][m] * g("MEAT_WASTE_RETAIL")
            slaughtered += req["series"]["each_month_meat_slaughtered"][m]
            if eaten > slaughtered + 1e-6:
                violated, where = True, {"month": m, "meat_eaten_so_far": eaten, "slaughtered_so_far": slaughtered}
                break
    elif req["resource"] == "stored_food":
        used = sum(val["stored_food_to_humans"][m] * g("STORED_FOOD_WASTE_RETAIL") + val["stored_food_feed"][m]
                   + val["stored_food_biofuel"][m] for m in range(n))
        if "fully_used" in req["clause"]:
            violated = used < c["INITIAL_STORED_FOOD"] - 1e-6
        else:
            violated = used > c["INITIAL_STORED_FOOD"] + 1e-6
        where = {"used_over_horizon": used, "initial_stock": c["INITIAL_STORED_FOOD"]}
    else:
        used = grown = 0.0
        for m in range(n):
            used += val["crops_food_to_humans"][m] * g("CROP_WASTE_RETAIL") + val["crops_food_feed"][m] + val["crops_food_biofuel"][m]
            grown += req["series"]["crop_production"][m]
            if "fully_used" not in req["clause"] and used > grown + 1e-6:
                violated, where = True, {"month": m, "used": used, "grown": grown}
                break
        if "fully_used" in req["clause"]:
            violated, where = used < grown - 1e-6, {"used": used, "grown": grown}
    print(json.dumps({"constraints_checked": total, "all_real_constraints_satisfied": not bad, "violated_constraints": bad[:5],
                      "ledger_violated": bool(violated), "where": where}))


if __name__ == "__main__":
    main()
