"""LP templates: the constraints the real Optimizer emits for a *symbolic* month k of a horizon N.

`month_templates` symbolically executes a real per-month builder (`Optimizer.add_*_to_model(month, variables)`
or the model-level builders) with month = k, variables[p][m] = V_p(m) (uninterpreted, >= 0 where the real
code creates the variable with lowBound=0) and returns, per path, the path condition on k and the named
constraints as z3 formulas.  A property of the LP is then a lemma  (forall k. Template(k)) -> P, proved with
explicit induction obligations (base / step / conclude).
"""
import time
from fractions import Fraction
import z3

from .values import Sym, Arr, Obj, OpenDict, LpExpr, LpConstraint, Unsupported, EngineError
from .interp import Interp, Ctx, PyExc, Infeasible
from . import ops, spec as sp
from .pulpmodel import LpModel

OPT = "src/optimizer/optimizer.py"

K = z3.Int("k")          # the symbolic month
N = z3.Int("NMONTHS")    # the symbolic horizon

PREFIXES = {
    "stored_food": ["Stored_Food_Start", "Stored_Food_End", "Stored_Food_To_Humans", "Stored_Food_Feed", "Stored_Food_Biofuel"],
    "methane_scp": ["Methane_SCP_To_Humans", "Methane_SCP_Feed", "Methane_SCP_Biofuel"],
    "cellulosic_sugar": ["Cellulosic_Sugar_To_Humans", "Cellulosic_Sugar_Feed", "Cellulosic_Sugar_Biofuel"],
    "meat": ["Meat_Start", "Meat_End", "Meat_Eaten"],
    "outdoor_crops": ["Crops_Food_Storage", "Crops_Food_Consumed", "Crops_Food_Consumed_Fat", "Crops_Food_Consumed_Protein",
                      "Crops_Food_To_Humans", "Crops_Food_Feed", "Crops_Food_Biofuel", "Crops_Food_To_Humans_Fat",
                      "Crops_Food_Feed_Fat", "Crops_Food_Biofuel_Fat", "Crops_Food_To_Humans_Protein",
                      "Crops_Food_Feed_Protein", "Crops_Food_Biofuel_Protein"],
    "seaweed": ["Seaweed_Wet_On_Farm", "Seaweed_To_Humans", "Seaweed_Feed", "Seaweed_Biofuel", "Used_Area"],
}
ADD_FLAG = {"seaweed": "ADD_SEAWEED", "outdoor_crops": "ADD_OUTDOOR_GROWING", "stored_food": "ADD_STORED_FOOD",
            "meat": "ADD_MEAT", "methane_scp": "ADD_METHANE_SCP", "cellulosic_sugar": "ADD_CELLULOSIC_SUGAR"}


def V(name):
    """The LP variable family of a (lower-case) prefix: month -> value."""
    return z3.Function("V_" + name, z3.IntSort(), z3.RealSort())


def series_fn(name):
    return z3.Function(name, z3.IntSort(), z3.RealSort())


def const(name):
    return z3.Real(name)


class World:
    """Symbolic optimiser instance for one configuration (which resources exist, storage regime, round)."""

    def __init__(self, S, resources, store_between_years=True, optimization_type="to_humans", include_fat=False,
                 include_protein=False, relocated=False, pop_small=False):
        self.S = S
        self.resources = set(resources)
        self.store = store_between_years
        self.otype = optimization_type
        ctx = S.ctx
        ctx.facts.append(N >= 14)  # supported horizons are 48..120; 14 keeps 'month > 12' and the last month apart
        self.Nv = Sym(N, "int")
        self.consts = {}
        I = S.I

        def c(name, lo=None, hi=None, strict_hi=False):
            t = const(name)
            if lo is not None:
                ctx.facts.append(t >= lo)
            if hi is not None:
                ctx.facts.append(t < hi if strict_hi else t <= hi)
            self.consts[name] = t
            return Sym(t, "float")

        def food_series(name, nonneg=True):
            f = series_fn(name)
            arr = Arr(self.Nv, fn=lambda i: Sym(f(i if not isinstance(i, int) else z3.IntVal(i)), "float"), dtype="float")
            if nonneg:
                ctx.quantified.append((N, lambda i, f=f: f(i) >= 0))
            return arr, f

        self.series = {}

        def mk_food(name, nonneg=True):
            arr, f = food_series(name, nonneg)
            self.series[name] = f
            zeros = Arr(self.Nv, fn=lambda i: Fraction(0), dtype="float")
            return sp.unwrap(S.food(sp.V(arr), sp.V(zeros), sp.V(zeros), "billion kcals each month",
                                    "thousand tons each month", "thousand tons each month"))

        # class-level unit conversions are not used by the builders, but Food needs them assigned
        kd_, fd_, pd_, pop_ = S.real("kcals_daily"), S.real("fat_daily"), S.real("protein_daily"), S.real("population")
        S.assume(sp.And(kd_ > 0, fd_ > 0, pd_ > 0, pop_ > 0))
        S.set_conversions(kd_, fd_, pd_, include_fat, include_protein, pop_)

        waste = {}
        for w in ("STORED_FOOD_WASTE_RETAIL", "MEAT_WASTE_RETAIL", "CROP_WASTE_RETAIL", "SCP_RETAIL_WASTE",
                  "CELL_SUGAR_RETAIL_WASTE", "SEAWEED_WASTE_RETAIL"):
            waste[w] = c(w, 0, 100, strict_hi=True)
        inputs = {"INCLUDE_FAT": include_fat, "INCLUDE_PROTEIN": include_protein, "OG_USE_BETTER_ROTATION": relocated,
                  "COUNTRY_CODE": "XXX"}
        for food in ("SEAWEED", "METHANE_SCP", "CELLULOSIC_SUGAR"):
            for use in ("HUMANS", "FEED", "BIOFUEL"):
                inputs[f"MAX_{food}_AS_PERCENT_KCALS_{use}"] = c(f"MAX_{food}_AS_PERCENT_KCALS_{use}", 0, 100)
        stored_food_obj = Obj(I.load_function("src/food_system/stored_food.py", "StoredFood"),
                              {"initial_available": sp.unwrap(S.food(c("INITIAL_STORED_FOOD", 0), 0, 0))})
        ents = {
            "NMONTHS": self.Nv, "STORE_FOOD_BETWEEN_YEARS": store_between_years, "inputs": inputs,
            "stored_food": stored_food_obj, "meat_summed_consumption": c("meat_summed_consumption", 0),
            "INITIAL_SEAWEED": c("INITIAL_SEAWEED", 0), "MAXIMUM_DENSITY": c("MAXIMUM_DENSITY", 0),
            "MINIMUM_DENSITY": c("MINIMUM_DENSITY", 0), "INITIAL_BUILT_SEAWEED_AREA": c("INITIAL_BUILT_SEAWEED_AREA", 0),
            "HARVEST_LOSS": c("HARVEST_LOSS", 0, 100), "SEAWEED_KCALS": c("SEAWEED_KCALS", 0),
            "POP": c("POP", 0), "KCALS_MONTHLY": c("KCALS_MONTHLY", 0), "BILLION_KCALS_NEEDED": c("BILLION_KCALS_NEEDED", 0),
            "INITIAL_HARVEST_DURATION_IN_MONTHS": 8, "DELAY": {"ROTATION_CHANGE_IN_MONTHS": 2},
            "OG_FRACTION_FAT": c("OG_FRACTION_FAT", 0), "OG_FRACTION_PROTEIN": c("OG_FRACTION_PROTEIN", 0),
            "OG_ROTATION_FRACTION_FAT": c("OG_ROTATION_FRACTION_FAT", 0),
            "OG_ROTATION_FRACTION_PROTEIN": c("OG_ROTATION_FRACTION_PROTEIN", 0),
        }
        ctx.facts.append(self.consts["BILLION_KCALS_NEEDED"] > 0)
        ctx.facts.append(self.consts["POP"] < 10 ** 7 if pop_small else self.consts["POP"] >= 10 ** 7)
        ents.update(waste)
        for r, flag in ADD_FLAG.items():
            ents[flag] = r in self.resources
        self.consts_for_optimizer = OpenDict("consts_for_optimizer", {k: sp.unwrap(v) for k, v in ents.items()}, None, True)

        oc = Obj(I.load_function("src/food_system/outdoor_crops.py", "OutdoorCrops"), {"production": mk_food("crop_production")})
        fish = Obj(I.load_function("src/food_system/seafood.py", "Seafood"), {"to_humans": mk_food("fish_to_humans")})
        running, f_run = food_series("max_consumed_culled_kcals_each_month")
        self.series["max_consumed_culled_kcals_each_month"] = f_run
        built, f_built = food_series("built_area")
        self.series["built_area"] = f_built
        growth, f_growth = food_series("growth_rates_monthly", nonneg=False)
        self.series["growth_rates_monthly"] = f_growth
        milk, f_milk = food_series("milk_kcals")
        self.series["milk_kcals"] = f_milk
        tc = {
            "outdoor_crops": oc, "fish": fish, "methane_scp": mk_food("methane_scp_production"),
            "cellulosic_sugar": mk_food("cellulosic_sugar_production"),
            "each_month_meat_slaughtered": mk_food("each_month_meat_slaughtered"),
            "max_consumed_culled_kcals_each_month": running, "built_area": built, "growth_rates_monthly": growth,
            "milk_kcals": milk, "greenhouse_crops": mk_food("greenhouse_crops"),
            "feed": mk_food("feed_charged"), "biofuel": mk_food("biofuel_charged"),
            "max_feed_that_could_be_used": mk_food("max_feed_that_could_be_used"),
            "max_biofuel_that_could_be_used": mk_food("max_biofuel_that_could_be_used"),
        }
        if optimization_type == "to_animals":
            units = dict(kcals_units="billion kcals each month", fat_units="thousand tons each month",
                         protein_units="thousand tons each month")
            mh = {}
            for food in ("outdoor_crops", "stored_food", "meat", "methane_scp", "cellulosic_sugar", "seaweed"):
                arr, f = food_series("min_human_" + food)
                self.series["min_human_" + food] = f
                zeros = Arr(self.Nv, fn=lambda i: Fraction(0), dtype="float")
                mh[food] = sp.unwrap(S.food(sp.V(arr), sp.V(zeros), sp.V(zeros), **units))
            tc["min_human_food_consumption"] = mh
        self.time_consts = tc
        # the real constructor (builds resource_constants and the initial variable table)
        self.opt = sp.unwrap(S.call(OPT, "Optimizer", self.consts_for_optimizer, tc))
        self.opt.attrs["optimization_type"] = optimization_type
        # variables[p][m]: LP variable of family p in month m (0 where the resource is not part of the model)
        self.variables = {}
        self.families = {}
        for r, prefs in PREFIXES.items():
            for p in prefs:
                pl = p.lower()
                if r in self.resources:
                    f = V(pl)
                    self.families[pl] = f
                    ctx.quantified.append((N, lambda i, f=f: f(i) >= 0))
                    self.variables[pl] = Arr(self.Nv, fn=lambda i, f=f: LpExpr(f(i if not isinstance(i, int) else z3.IntVal(i))),
                                             dtype="object", is_nd=False)
                else:
                    self.variables[pl] = Arr(self.Nv, fn=lambda i: 0, dtype="int", is_nd=False)
        for pl in ("consumed_kcals", "consumed_fat", "consumed_protein"):
            f = V(pl)
            self.families[pl] = f
            ctx.quantified.append((N, lambda i, f=f: f(i) >= 0))
            self.variables[pl] = Arr(self.Nv, fn=lambda i, f=f: LpExpr(f(i if not isinstance(i, int) else z3.IntVal(i))),
                                     dtype="object", is_nd=False)
        self.obj_var = z3.Real("V_objective_function")
        ctx.facts.append(self.obj_var >= 0)
        self.variables["objective_function"] = LpExpr(self.obj_var)


class PathTemplate:
    def __init__(self, pc, conds, outcome, detail=None):
        self.pc = pc  # list of z3 Bools (over K, N, flags)
        self.conds = conds  # {name: z3 Bool}
        self.outcome = outcome
        self.detail = detail


def month_templates(repo, build, call, month_range=True, max_paths=200):
    """Explore `call(world, k)` for the symbolic month k.  build(S) -> World.  Returns [PathTemplate]."""
    I = Interp(repo)
    work = [[]]
    out = []
    sources = {}
    while work:
        dec = work.pop()
        ctx = Ctx(I, dec)
        I.new_path(ctx)
        I.loop_specs, I.summaries = {}, {}
        S = sp.Spec(ctx, I)
        try:
            w = build(S)
            if month_range:
                ctx.facts.append(z3.And(K >= 0, K < N))
                ctx.add_index(K)
                ctx.add_index(K - 1)
            k = Sym(K, "int")
            try:
                res = call(w, k, I)
                outcome = "return"
            except PyExc as pe:
                res, outcome = pe.exc, "raise"
        except Infeasible:
            continue
        work.extend(ctx.pending)
        sources.update(I.sources_used)
        if len(out) > max_paths:
            raise Unsupported("too many template paths")
        # only decisions about k / N / flags are path conditions of the template
        conds = {}
        if outcome == "return":
            conds = extract_conditions(res)
            sub = getattr(w, "subst", None)
            if sub:
                conds = {n_: z3.substitute(f_, *sub) for n_, f_ in conds.items()}
        pt = PathTemplate(list(ctx.pc), conds, outcome, detail=res if outcome == "raise" else None)
        pt.facts = list(ctx.facts)
        pt.quantified = list(ctx.quantified)
        pt.world = w
        out.append(pt)
    return out, sources


def extract_conditions(res):
    """conditions dict / LpModel -> {name: z3 formula}."""
    out = {}
    if isinstance(res, LpModel):
        for k, (name, c) in enumerate(res.constraints):
            out[name if isinstance(name, str) else f"_C{k}"] = c.formula
        return out
    if isinstance(res, (tuple, list)):
        for x in res:
            out.update(extract_conditions(x))
        return out
    if isinstance(res, (dict, OpenDict)):
        items = res.entries.items() if isinstance(res, OpenDict) else res.items()
        for name, c in items:
            if isinstance(c, LpConstraint):
                out[name] = c.formula
            elif isinstance(c, bool):
                out[name] = z3.BoolVal(c)
            else:
                raise EngineError(f"condition {name} is not a constraint: {c!r}")
        return out
    if res is None:
        return out
    raise EngineError(f"cannot extract constraints from {res!r}")


def template(paths, only=None):
    """forall-k body: conjunction over paths of (path condition -> its named constraints)."""
    parts = []
    for p in paths:
        if p.outcome != "return":
            continue
        cs = [f for n, f in p.conds.items() if only is None or any(n.startswith(o) for o in only)]
        body = z3.And(cs) if cs else z3.BoolVal(True)
        parts.append(z3.Implies(z3.And(p.pc) if p.pc else z3.BoolVal(True), body))
    return z3.And(parts) if parts else z3.BoolVal(True)


def at(formula, t):
    """Instance of a template (free month K) at month term t."""
    return z3.substitute(formula, (K, t if z3.is_expr(t) else z3.IntVal(t)))


def prove(name, hyps, goal, timeout_ms=20000, bound_n=None):
    """Discharge one lemma obligation -> record for the driver."""
    t0 = time.time()
    s = z3.Solver()
    s.set("timeout", timeout_ms)
    for h in hyps:
        s.add(h)
    s.add(z3.Not(goal))
    r = s.check()
    rec = {"name": name, "kind": "lemma", "backend": "z3", "goal": goal.sexpr()[:1200], "detail": ""}
    if r == z3.unsat:
        rec["status"] = "discharged"
    elif r == z3.sat:
        rec["status"] = "failed"
        rec["model_obj"] = s.model()
        rec["model"] = str(s.model())[:3000]
    else:
        rec["status"] = "unknown"
        rec["detail"] = f"z3: {s.reason_unknown()}"
        try:
            from .vc import smt2_of, run_cvc5

            rc = run_cvc5(smt2_of(hyps, z3.Not(goal)), 60)
            if rc == "unsat":
                rec["status"], rec["backend"] = "discharged", "cvc5"
            else:
                rec["detail"] += f"; cvc5: {rc}"
        except Exception as e:
            rec["detail"] += f"; cvc5 error {e}"
    rec["seconds"] = round(time.time() - t0, 3)
    return rec


def cum(name, summand_at):
    """Cumulative sum spec function: cum(m) = sum_{j<=m} summand(j), with its two defining equations
    instantiated on demand by `cum_unfold`."""
    f = z3.Function("cum_" + name, z3.IntSort(), z3.RealSort())
    return f


def cum_unfold(f, summand_at, t):
    """Defining equations of the cumulative sum at month t (t = 0 base, t > 0 step)."""
    t = t if z3.is_expr(t) else z3.IntVal(t)
    return z3.And(z3.Implies(t == 0, f(t) == summand_at(t)), z3.Implies(t > 0, f(t) == f(t - 1) + summand_at(t)))
