"""Model of the part of PuLP the optimiser uses: variables are real unknowns, affine expressions are
z3 terms, comparison operators build constraint objects, `model += (c, name)` records the constraint.
CBC itself is not modelled: `solve()` is out of reach by design (DESIGN 2.2)."""
from fractions import Fraction
import z3

from .values import Sym, Native, NativeModule, LpVar, LpExpr, LpConstraint, Unsupported, Opaque
from . import ops


class LpModel:
    def __init__(self, name, sense):
        self.name = name
        self.sense = sense
        self.constraints = []  # (name | None, LpConstraint)
        self.objective = None
        self.solved = 0
        self.families = []  # (count term, month symbol, formula, name): constraints added for every month of a loop

    def add(self, item, interp):
        fr = interp.ctx.loop_capture[-1] if interp.ctx.loop_capture else None
        if fr is not None and id(self) in fr.get("models", ()):
            fr.setdefault("model_adds", []).append((self, item))
            return
        name = None
        if isinstance(item, tuple):
            item, name = item[0], (item[1] if len(item) > 1 else None)
        if isinstance(item, LpConstraint):
            self.constraints.append((name, item))
        elif isinstance(item, (LpVar, LpExpr)) or ops.is_sym(item) or isinstance(item, (int, Fraction)):
            self.objective = item
        elif isinstance(item, bool):
            # a constraint between constants evaluates to a Python bool in PuLP too (then rejected by PuLP)
            raise ops.PyRaise("TypeError", "A False/True object cannot be passed as a constraint")
        else:
            raise Unsupported(f"model += {item!r}")

    def copy(self):
        m = LpModel(self.name, self.sense)
        m.constraints = list(self.constraints)
        m.families = list(self.families)
        m.objective = self.objective
        return m


def install(I):
    LpMaximize, LpMinimize = -1, 1

    def lp_variable(ctx, name=None, lowBound=None, upBound=None, cat="Continuous", e=None):
        ctx.counter += 1
        t = z3.Real(f"lp!{ctx.counter}!{name if isinstance(name, str) else 'v'}")
        v = LpVar(name, t)
        v.lowBound, v.upBound = lowBound, upBound
        if lowBound is not None:
            ctx.facts.append(t >= ops.as_real(lowBound))
        if upBound is not None:
            ctx.facts.append(t <= ops.as_real(upBound))
        ctx.lp_vars.append(v)
        return v

    def lp_problem(ctx, name="NoName", sense=LpMinimize):
        return LpModel(name, sense)

    def lp_sum(ctx, items):
        acc = Fraction(0)
        for x in I.iterate(items):
            acc = ops.scalar_binop("+", acc, x)
        return acc

    def cbc(ctx, **kw):
        return ("PULP_CBC_CMD", kw)

    def value(ctx, x):
        raise Unsupported("pulp.value(): solver results are not modelled")

    ns = {
        "LpVariable": Native("pulp.LpVariable", lp_variable, type_tag="LpVariable"),
        "LpProblem": Native("pulp.LpProblem", lp_problem),
        "LpMaximize": LpMaximize, "LpMinimize": LpMinimize,
        "lpSum": Native("pulp.lpSum", lp_sum),
        "PULP_CBC_CMD": Native("pulp.PULP_CBC_CMD", cbc),
        "value": Native("pulp.value", value),
        "LpStatus": {1: "Optimal", 0: "Not Solved", -1: "Infeasible", -2: "Unbounded", -3: "Undefined"},
        "constants": NativeModule("pulp.constants", {"LpStatusOptimal": 1}),
    }
    ns["pulp"] = NativeModule("pulp.pulp", {"LpVariable": ns["LpVariable"]})
    I.native_modules["pulp"] = NativeModule("pulp", ns)

    prev = getattr(I, "extra_attr", None)

    def extra_attr(obj, name):
        if isinstance(obj, LpModel):
            if name == "constraints":
                return {n or f"_C{k}": c for k, (n, c) in enumerate(obj.constraints)}
            if name == "copy":
                return Native("LpProblem.copy", lambda ctx: obj.copy())
            if name == "sense":
                return obj.sense
            if name == "objective":
                hook = getattr(I, "lp_objective_hook", None)
                return hook(obj) if hook is not None else obj.objective
            if name == "variables":
                return Native("LpProblem.variables", lambda ctx: [])
            if name == "solve":
                def solve(ctx, *a, **k):
                    raise Unsupported("LpProblem.solve(): CBC is not modelled")
                return Native("LpProblem.solve", solve)
            if name == "name":
                return obj.name
        return prev(obj, name) if prev else None

    I.extra_attr = extra_attr


def lpvar_attr(I, v, name):
    if name == "name":
        return v.name
    if name == "varValue":
        hook = getattr(I, "lp_value_hook", None)
        if hook is not None:
            return hook(v)
        raise Unsupported("LpVariable.varValue: solver results are not modelled")
    if name == "lowBound":
        return v.lowBound
    if name == "upBound":
        return v.upBound
    raise Unsupported(f"LpVariable.{name}")
