"""./check <Cxx> quick|thorough : generate and discharge every obligation of one property.

Exit codes: 0 held (known findings listed) / 1 VIOLATION / 2 undecided / 3 checker error.
"""
import hashlib
import importlib
import json
import multiprocessing as mp
import os
import re
import sys
import time
import traceback

VERIF = os.path.dirname(os.path.dirname(os.path.abspath(__file__)))
sys.path.insert(0, VERIF)


def repo_path():
    return os.path.abspath(os.environ.get("REPO", "/repo"))


def load_module(prop):
    return importlib.import_module(f"contracts.{prop}")


def clause_key(name):
    return name


def _sanitize(s):
    return re.sub(r"[^A-Za-z0-9_.\-\[\]]+", "_", s)[:180]


def run_contract(job):
    """Worker: one contract -> plain-dict result (no z3 objects cross the process boundary)."""
    import threading

    sys.setrecursionlimit(100000)
    threading.stack_size(512 * 1024 * 1024)
    box = {}
    t = threading.Thread(target=lambda: box.__setitem__("r", _run_contract(job)))
    t.start()
    t.join()
    return box["r"]


def _run_contract(job):
    """One contract.  When a loop contract's roles do not match the locals of the loop (renamed variables), every
    assignment of the unmatched locals to the unmatched roles is tried, most similar names first; an assignment is
    accepted only if EVERY obligation of the contract is then discharged (instantiating an invariant is proof
    search: a wrong instantiation cannot make a false obligation pass).  Otherwise the first result stands."""
    first = _attempt(job, None)
    ln = first.get("loop_names")
    if not ln:
        return first
    import itertools, difflib
    roles, actual = ln["unmatched_roles"], ln["unmatched_actual"]
    if not actual or len(actual) > len(roles) or len(roles) > 5:
        return first
    cands = []
    for pick in itertools.permutations(roles, len(actual)):
        score = sum(difflib.SequenceMatcher(None, r.lower(), a.lower()).ratio() for r, a in zip(pick, actual))
        cands.append((-score, dict(zip(pick, actual))))
    cands.sort(key=lambda x: x[0])
    tried = 0
    for _, mapping in cands[:120]:
        tried += 1
        r = _attempt(job, {ln["loop"]: mapping})
        bad = r.get("error") or r.get("unsupported") or any(
            o["status"] not in ("discharged", "dead", "covered") and o["kind"] != "cover" for o in r["obligations"])
        if not bad and r["obligations"]:
            r["notes"] = (r.get("notes") or []) + [f"loop contract {ln['loop']}: roles matched to renamed locals {mapping} (attempt {tried})"]
            return r
    first["error"] = (first.get("error") or "") + f" (no assignment of the locals {actual} to the invariant's roles {roles} verifies; {tried} tried)"
    return first


def _attempt(job, loop_renames):
    prop, idx, repo, tier = job
    t0 = time.time()
    out = {"index": idx, "obligations": [], "error": None, "unsupported": None}
    try:
        from pyvc import vc, spec
        from pyvc.values import Unsupported, EngineError
        from pyvc.interp import Interp

        mod = load_module(prop)
        c = mod.CONTRACTS[idx]
        c.loop_renames = loop_renames
        out["label"] = c.label
        out["file"], out["func"], out["bounded"] = c.file, c.func, c.bounded
        I = Interp(repo)
        stats = {}
        try:
            obls = vc.explore(c, I, stats)
        except Unsupported as e:
            out["unsupported"] = f"{e}"
            out["trace"] = traceback.format_exc()[-2500:]
            out["seconds"] = time.time() - t0
            return out
        out["stats"] = stats
        out["sources"] = dict(I.sources_used)
        # covers first: obligations on a dead path (unsatisfiable hypotheses) are not obligations at all
        dead = set()
        for o in obls:
            if o.kind == "cover":
                vc.discharge(o, timeout_ms=c.solver_timeout_ms)
                if o.status == "dead":
                    dead.add(o.path_id)
        out["live_paths"] = stats.get("paths", 0) - len(dead)
        if tier == "thorough":
            # engine differential: one concrete input per reachable path (its cover model), interpreter vs CPython
            diff = {"agree": 0, "differ": [], "skipped": 0, "skip_reason": None}
            done = 0
            for o in obls:
                if o.kind == "cover" and o.path_id not in dead and getattr(o, "model", None) is not None and done < 12:
                    v, d = vc.differential(c, Interp(repo), o.model, repo)
                    done += 1
                    if v == "agree":
                        diff["agree"] += 1
                    elif v == "differ":
                        diff["differ"].append(f"path {o.path_id}: {d}"[:300])
                    else:
                        diff["skipped"] += 1
                        diff["skip_reason"] = d[:200]
                        if "summaries" in d or "natively" in d:
                            break
            out["differential"] = diff
        for o in obls:
            if o.path_id in dead and o.kind != "inline":
                # (inline obligations - call-site preconditions, in-code asserts, loop invariants - carry their own
                # hypotheses snapshot: an assert that FAILS makes the rest of its path dead, and must still be reported)
                continue
            if o.kind != "cover":
                vc.discharge(o, timeout_ms=c.solver_timeout_ms)
                if o.status == "unknown":
                    # both solvers gave up on  hyps & not goal.  Cheap falsification before calling it undecided: the
                    # concrete input that was found to drive this path (its cover model) is a model of the path condition;
                    # if it also satisfies every hypothesis of the obligation and makes the goal false, it IS a
                    # counter-model (and goes to the native replay like any other).
                    try:
                        import z3 as _z3
                        cm = next((x.model for x in obls if x.kind == "cover" and x.path_id == o.path_id and getattr(x, "model", None) is not None), None)
                        if cm is not None and _z3.is_false(cm.eval(o.goal, model_completion=True)) and \
                                all(_z3.is_true(cm.eval(h, model_completion=True)) for h in o.hyps):
                            o.status, o.model, o.backend = "failed", cm, "z3 (cover model of the path falsifies the goal)"
                            o.detail = (o.detail or "") + "; counter-model = the path's cover model"
                    except Exception:
                        pass
                if o.status == "unknown":
                    # second cheap falsification: fix the real-valued input constants of the GOAL to generic values (a few
                    # random rationals in (0, 1)) and ask again - the query is then (nearly) ground.  Any model found
                    # satisfies  hyps & not goal  and is therefore a genuine counter-model; finding none changes nothing.
                    try:
                        import z3 as _z3, random as _rnd
                        from fractions import Fraction as _Fr

                        def _consts(e, acc, seen):
                            if e.get_id() in seen:
                                return
                            seen.add(e.get_id())
                            if _z3.is_const(e) and e.decl().kind() == _z3.Z3_OP_UNINTERPRETED and e.sort().kind() == _z3.Z3_REAL_SORT:
                                acc[e.decl().name()] = e
                            for ch in e.children():
                                _consts(ch, acc, seen)

                        cs = {}
                        _consts(o.goal, cs, set())
                        rng = _rnd.Random(12345)
                        for attempt in range(3):
                            sol = _z3.Solver()
                            sol.set("timeout", 3000)
                            for h in o.hyps:
                                sol.add(h)
                            names = sorted(cs)
                            rng.shuffle(names)
                            kept = 0
                            for nm in names:  # greedily: a value is kept only if the hypotheses still have a model with it
                                fr = _Fr(rng.randint(1, 96), 97)
                                sol.push()
                                sol.add(cs[nm] == _z3.RealVal(f"{fr.numerator}/{fr.denominator}"))
                                if sol.check() == _z3.sat:
                                    kept += 1
                                else:
                                    sol.pop()
                            sol.set("timeout", 20000)
                            sol.add(_z3.Not(o.goal))
                            if sol.check() == _z3.sat:
                                o.status, o.model, o.backend = "failed", sol.model(), "z3 (goal's input constants fixed to generic values)"
                                o.detail = (o.detail or "") + f"; counter-model found with {kept} of the goal's {len(cs)} real constants fixed (attempt {attempt + 1})"
                                break
                    except Exception:
                        pass
            if tier == "thorough" and o.kind != "cover" and o.status == "discharged" and o.backend == "z3":
                # second solver must agree
                try:
                    txt = vc.smt2_of(o.hyps, __import__("z3").Not(o.goal))
                    rc = vc.run_cvc5(txt, 30, strings=("String" in txt or "str." in txt))
                    o.cross = rc
                except Exception as e:
                    o.cross = f"error: {e}"
            rec = {"name": o.name, "kind": o.kind, "path": o.path_id, "status": o.status, "backend": o.backend,
                   "seconds": round(o.seconds, 4), "detail": o.detail, "cross": getattr(o, "cross", None)}
            if o.kind != "cover":
                try:
                    g = o.goal.sexpr()
                    rec["goal"] = g if len(g) < 1500 else g[:1500] + "..."
                except Exception:
                    pass
            if o.status == "failed" and o.kind != "cover":
                rec["model"] = str(o.model)[:3000] if o.model is not None else None
                if o.model is not None and c.replayable:
                    verdict, info = vc.native_replay(c, I, o, repo, None)
                    rec["replay_verdict"] = verdict
                    rec["replay"] = info
                else:
                    rec["replay_verdict"] = "no-model"
            out["obligations"].append(rec)
    except Exception as e:
        out["error"] = f"{type(e).__name__}: {e}"
        out["trace"] = traceback.format_exc()[-4000:]
        if getattr(e, "loop_names", None):
            out["loop_names"] = e.loop_names
    out["seconds"] = time.time() - t0
    return out


def load_known():
    path = os.path.join(VERIF, "known_findings.jsonl")
    known, fixed = [], []
    if os.path.exists(path):
        for line in open(path):
            line = line.strip()
            if not line or line.startswith("#"):
                continue
            if line.startswith("fixed:"):
                fixed.append(line)
                continue
            known.append(json.loads(line))
    return known, fixed


def _is_no_exception(name):
    return name.rsplit("/", 1)[-1].startswith("no_exception[")


def load_baseline():
    path = os.path.join(VERIF, "baseline_obligations.json")
    if os.path.exists(path):
        return json.load(open(path))
    return {}


def replay_file(path):
    """./check --replay <file>: re-run a stored violation against the CURRENT tree.  With recorded inputs the real
    function is executed natively on them and the failed clause re-evaluated (exit 1: still violated, 0: not);
    without inputs (no-failing-input-found) the obligation is re-generated and re-discharged."""
    from pyvc import vc, spec
    from pyvc.interp import Interp

    rec = json.load(open(path))
    prop, name = rec["property"], rec["obligation"]
    repo = repo_path()
    print(f"replay of {name}\n  recorded: status={rec.get('status')} solver={rec.get('solver')} confirmed_natively={rec.get('confirmed_natively')}")
    info = rec.get("replay") or {}
    mod = load_module(prop)
    if isinstance(info, dict) and info.get("inputs"):
        label = name.rsplit("/", 1)[0]
        cs = [c for c in mod.CONTRACTS if c.label == label]
        if cs:
            c = cs[0]
            I = Interp(repo)
            for (f_, q_), fn in c.summaries.items():
                I.summaries[(f_, q_)] = fn
            o = vc.Obl(name, [], None, "return", info.get("path", 0), c)
            o.backend = "recorded inputs"
            verdict, new = vc._native_replay_one(c, I, o, spec.RecordedModel(info["inputs"]), repo)
            print("  inputs:", json.dumps(info["inputs"])[:1500])
            print("  native outcome:", new.get("native_outcome"), "| clauses:", json.dumps(new.get("native_clauses"))[:800])
            print("  verdict on the current tree:", new.get("verdict"))
            if verdict == "violation":
                print(f"VIOLATION property={prop} replay={path}")
                return 1
            return 0 if verdict == "spurious" else 3
    print("  no failing input recorded; solver output:", str(rec.get("solver_output"))[:1500])
    print("  re-generating the obligation from the current tree ...")
    import subprocess

    p = subprocess.run([sys.executable, "-m", "pyvc.driver", prop, "quick"], cwd=VERIF, capture_output=True, text=True)
    short = _sanitize(name.split("/", 1)[1])
    still = [ln for ln in p.stdout.splitlines() if ln.startswith("VIOLATION") and short in ln]
    for ln in still:
        print(ln)
    print("  obligation", "still fails" if still else "is discharged (or no longer generated)", "on the current tree")
    return 1 if still else 0


def main(argv):
    if len(argv) < 2:
        print("usage: check <Cxx> quick|thorough [--write-baseline] | check --replay <file>")
        return 3
    if argv[1] == "--replay":
        return replay_file(argv[2])
    prop = argv[1]
    tier = argv[2] if len(argv) > 2 and not argv[2].startswith("--") else os.environ.get("VERIF_TIER", "quick")
    write_baseline = "--write-baseline" in argv
    seed = int(os.environ.get("VERIF_SEED", "0"))
    repo = repo_path()
    t0 = time.time()
    os.environ["VERIF_TIER"] = tier  # contract modules widen bounds / configurations in the thorough tier
    # tools/seedtest.sh points VERIF_EVIDENCE_DIR elsewhere so that /verif/evidence keeps describing /repo
    ev_dir = os.environ.get("VERIF_EVIDENCE_DIR") or os.path.join(VERIF, "evidence")
    ev_path = os.path.join(ev_dir, f"{prop}.json")
    os.makedirs(os.path.dirname(ev_path), exist_ok=True)
    if os.path.exists(ev_path):
        os.unlink(ev_path)
    try:
        mod = load_module(prop)
    except Exception:
        traceback.print_exc()
        print(f"CHECKER-ERROR property={prop} cannot load contracts")
        return 3
    contracts = mod.CONTRACTS
    jobs = [(prop, k, repo, tier) for k in range(len(contracts))]
    nproc = max(1, min(int(os.environ.get("VERIF_JOBS", "8")), len(jobs)))
    # watchdog: a contract that does not finish within the budget is reported as undecided (never as held)
    budget = int(os.environ.get("VERIF_CONTRACT_TIMEOUT", "900" if tier != "thorough" else "3600"))
    deadline = time.time() + budget
    if nproc >= 1 and len(jobs) > 0:
        pool = mp.Pool(nproc)
        pending = [pool.apply_async(run_contract, (j,)) for j in jobs]
        results = []
        for j, r in zip(jobs, pending):
            try:
                results.append(r.get(timeout=max(1.0, deadline - time.time())))
            except mp.TimeoutError:
                c = contracts[j[1]]
                results.append({"index": j[1], "obligations": [], "error": None, "label": c.label, "file": c.file, "func": c.func,
                                "bounded": c.bounded, "unsupported": f"no verdict within {budget} s (watchdog)", "seconds": budget})
        pool.terminate()
        pool.join()
    else:
        results = []

    # extra (ground / lemma / structural) obligations of the property, run in-process
    extra = []
    for fn in getattr(mod, "EXTRA", []):
        try:
            extra.extend(fn(repo, tier, seed))
        except Exception as e:
            traceback.print_exc()
            extra.append({"name": f"{prop}/extra/{fn.__name__}", "status": "error", "detail": f"{type(e).__name__}: {e}",
                          "kind": "extra", "backend": "python", "seconds": 0})

    known, fixed = load_known()
    known = [k for k in known if k["property"] == prop]
    baseline = load_baseline().get(prop, [])
    baseline_contracts = {n.rsplit("/", 1)[0] for n in baseline}

    violations, undecided, errors, known_hits = [], [], [], []
    n_obl = n_dis = 0
    n_cover = 0
    bounded_items = []
    solver_s = 0.0
    backends = {}
    samples = []
    functions = []
    discharged_names = set()
    failed_names = set()
    all_records = []
    cross_stats = {"confirmed": 0, "second_solver_gave_no_verdict": 0}
    engine_diff = {"inputs_compared": 0, "agree": 0, "contracts_compared": 0, "contracts_skipped": 0, "differences": []}
    for r in results:
        if r.get("error"):
            errors.append(f"{r.get('label', r['index'])}: {r['error']}")
            print(r.get("trace", ""))
            continue
        if r.get("unsupported"):
            errors.append(f"{r['label']}: out of reach: {r['unsupported']}")
            print(r.get("trace", ""))
            continue
        functions.append({"file": r["file"], "function": r["func"], "contract": r["label"],
                          "paths": r["stats"].get("paths"), "outcomes": r["stats"].get("outcomes"),
                          "source_sha256": r["sources"].get(r["file"]), "bounded": r["bounded"],
                          "dropped": r["stats"].get("dropped"), "seconds": round(r["seconds"], 2)})
        if r.get("live_paths", 0) == 0:
            errors.append(f"{r['label']}: zero feasible paths (vacuous precondition)")
        if r.get("differential"):
            d = r["differential"]
            engine_diff["inputs_compared"] += d["agree"] + len(d["differ"])
            engine_diff["agree"] += d["agree"]
            engine_diff["contracts_compared"] += 1 if d["agree"] + len(d["differ"]) else 0
            engine_diff["contracts_skipped"] += 1 if not (d["agree"] + len(d["differ"])) else 0
            for x in d["differ"]:
                engine_diff["differences"].append(f"{r['label']}: {x}")
        for o in r["obligations"]:
            o["bounded"] = r["bounded"]
            all_records.append(o)
    for o in extra:
        all_records.append(o)

    for o in all_records:
        solver_s += o.get("seconds", 0) or 0
        name = o["name"]
        is_cover = o.get("kind") == "cover"
        st = o["status"]
        if st == "error":
            errors.append(f"{name}: {o.get('detail')}")
            continue
        kf = next((k for k in known if k["obligation"] == name), None)
        if st == "discharged":
            if is_cover:
                n_cover += 1
                continue
            if o.get("cross") == "unsat":
                cross_stats["confirmed"] += 1
            elif o.get("cross") == "sat":
                # a genuine disagreement between the two solvers: the obligation is not counted as discharged
                undecided.append((name, "solvers disagree: z3 unsat, cvc5 sat"))
            elif o.get("cross") is not None:
                cross_stats["second_solver_gave_no_verdict"] += 1
            if o.get("bounded"):
                bounded_items.append(name)
                discharged_names.add(name)  # passes on the unchanged tree (for the baseline), never counted as proved
            else:
                n_obl += 1
                n_dis += 1
                discharged_names.add(name)
            backends[o.get("backend")] = backends.get(o.get("backend"), 0) + 1
            if len(samples) < 6 and o.get("goal"):
                samples.append({"obligation": name, "path": o.get("path"), "goal": o["goal"][:600], "backend": o.get("backend")})
            continue
        if is_cover:
            errors.append(f"{name}: {o.get('detail')}")
            continue
        # failed or unknown
        failed_names.add(name)
        rv = o.get("replay_verdict")
        if st == "failed" and rv == "violation":
            if kf is not None:
                known_hits.append((kf, o))
            else:
                violations.append((name, o, True))
        elif st == "failed" and kf is not None:
            known_hits.append((kf, o))
        elif st == "failed" and (name in baseline or (_is_no_exception(name) and rv != "spurious" and name.rsplit("/", 1)[0] in baseline_contracts)):
            # (a contract that allows no exception held that clause on the unchanged tree by having no raising path:
            # the clause is part of the baseline whenever the contract is, unless the replay showed the path spurious)
            violations.append((name, o, False))
        elif st == "failed" and rv == "error":
            errors.append(f"{name}: replay failed: {(o.get('replay') or {}).get('verdict')}")
        else:
            if kf is not None:
                known_hits.append((kf, o))
            else:
                n_obl += 1
                undecided.append((name, f"{st}; replay: {rv}; {o.get('detail', '')}"))

    # a clause may fail on one path and hold on others: a failed clause is not counted as discharged
    replay_dir = os.path.join(VERIF, "replays", prop)
    seen_v = set()
    lines = []
    for (name, o, confirmed) in violations:
        if name in seen_v:
            continue
        seen_v.add(name)
        os.makedirs(replay_dir, exist_ok=True)
        rp = os.path.join(replay_dir, _sanitize(name.split("/", 1)[1]) + ".json")
        json.dump({"property": prop, "obligation": name, "status": o["status"], "goal": o.get("goal"),
                   "solver": o.get("backend"), "solver_output": o.get("model"), "detail": o.get("detail"),
                   "replay": o.get("replay"), "confirmed_natively": confirmed}, open(rp, "w"), indent=1, default=str)
        tail = "" if confirmed else " no-failing-input-found"
        lines.append(f"VIOLATION property={prop} replay={rp}{tail}")
    seen_k = set()
    for (kf, o) in known_hits:
        if kf["obligation"] in seen_k:
            continue
        seen_k.add(kf["obligation"])
        lines.append(f"KNOWN-FINDING: property={prop} {kf['obligation']} {kf['what']}")
    # a listed finding that no longer fails is reported (not an error): the list is never edited at run time
    for kf in known:
        if kf.get("tier") == "thorough" and tier != "thorough":
            continue
        if kf["obligation"] not in seen_k:
            lines.append(f"NOTE: known finding no longer reproduces: {kf['obligation']}")

    floor = getattr(mod, "MIN_OBLIGATIONS", 1)
    if n_obl < floor and not errors:
        errors.append(f"only {n_obl} obligations generated, floor is {floor} (vacuity guard)")

    for u in undecided:
        lines.append(f"UNDECIDED: {u[0]} :: {u[1]}")
    for e in errors:
        lines.append(f"CHECKER-ERROR: {e}")

    wall = time.time() - t0
    level = getattr(mod, "LEVEL", "proof")
    evidence = {
        "property_id": prop, "tier": tier if tier in ("quick", "thorough") else "quick", "seed": seed, "level": level,
        "coverage": {
            "obligations": n_obl, "discharged": n_dis,
            "checker_cmd": f"./check {prop} {tier}  (pyvc: VCs generated from {repo} source, z3 {_z3v()} + /usr/bin/cvc5)",
            "trusted_base": list(getattr(mod, "TRUSTED", [])),
            "covers_reachable_paths": n_cover,
            "functions_under_contract": functions,
            "backends": backends, "solver_seconds": round(solver_s, 2),
            "bounded_not_counted_as_proved": sorted(set(bounded_items)),
            "known_findings_matched": sorted(seen_k),
            "not_decided": list(getattr(mod, "NOT_DECIDED", [])),
            "samples": samples,
            "engine_differential_vs_cpython": engine_diff if tier == "thorough" else "thorough tier only",
            "cvc5_cross_check_of_z3_discharged_obligations": cross_stats if tier == "thorough" else "thorough tier only",
            "explanation": getattr(mod, "EXPLANATION", ""),
            "undecided": [u[0] for u in undecided], "errors": errors,
        },
        "assumptions": list(getattr(mod, "ASSUMPTIONS", [])),
        "wall_s": round(wall, 2), "violations": len(seen_v),
    }
    json.dump(evidence, open(ev_path, "w"), indent=1, default=str)

    if write_baseline:
        bp = os.path.join(VERIF, "baseline_obligations.json")
        b = load_baseline()
        b[prop] = sorted(discharged_names - failed_names)
        json.dump(b, open(bp, "w"), indent=0, sort_keys=True)

    print(f"{prop} {tier}: contracts={len(contracts)} obligations={n_obl} discharged={n_dis} covers={n_cover} "
          f"bounded={len(set(bounded_items))} known-findings={len(seen_k)} violations={len(seen_v)} "
          f"undecided={len(undecided)} errors={len(errors)} wall={wall:.1f}s")
    for ln in lines:
        print(ln)
    if tier == "thorough":
        print(f"engine differential vs CPython: {engine_diff['agree']}/{engine_diff['inputs_compared']} concrete inputs agree over "
              f"{engine_diff['contracts_compared']} contracts ({engine_diff['contracts_skipped']} not natively callable)")
        print(f"cvc5 cross-check: {cross_stats['confirmed']} z3-discharged obligations confirmed, {cross_stats['second_solver_gave_no_verdict']} "
              f"without a verdict from cvc5 (unknown / timeout / unsupported), 0 contradicted" if not any("solvers disagree" in u[1] for u in undecided)
              else "cvc5 cross-check: CONTRADICTION reported above")
        for x in engine_diff["differences"][:10]:
            print("ENGINE-DIFFERENCE (informational):", x)
    if seen_v:
        return 1
    if errors:
        return 3
    if undecided:
        return 2
    return 0


def _z3v():
    try:
        import z3

        return z3.get_version_string()
    except Exception:
        return "?"


def _entry():
    import threading

    sys.setrecursionlimit(100000)
    threading.stack_size(512 * 1024 * 1024)
    box = {}

    def run():
        box["rc"] = main(sys.argv)

    t = threading.Thread(target=run)
    t.start()
    t.join()
    return box.get("rc", 3)


if __name__ == "__main__":
    sys.exit(_entry())
