"""Models of Python builtins and of the methods of builtin values."""
from fractions import Fraction
import copy as _copy
import z3

from .values import (
    Sym, Arr, Arr2, ClassVal, Obj, FuncVal, BoundMethod, Native, NativeModule, ModuleVal, OpenDict,
    LpVar, LpExpr, LpConstraint, Unsupported, EngineError, NAN, INF, FloatSpecial, Opaque,
    is_number, is_concrete_number,
)
from . import ops
from .ops import PyRaise, simp


def install(I):
    from .interp import RangeVal, SliceVal, GenVal, ExcVal, PyExc, SuperVal, EXC_PARENTS

    B = I.builtins

    def native(name, type_tag=None):
        def deco(f):
            B[name] = Native(name, f, type_tag=type_tag)
            return f
        return deco

    B["True"], B["False"], B["None"] = True, False, None
    B["__name__"] = "__pyvc__"

    @native("super")
    def _super(ctx, *a):
        raise Unsupported("super() with arguments")

    @native("len")
    def _len(ctx, x):
        if isinstance(x, (list, tuple, dict, str, set, frozenset)):
            return len(x)
        if isinstance(x, Arr):
            return x.length
        if type(x).__name__ == "MaskSel":
            from .npmodel import reduce_sum

            return reduce_sum(ctx, ops.arr_map(lambda m: ops.ite(I.truth(m), 1, 0), x.mask, dtype="int"))
        if isinstance(x, Arr2):
            return len(x.rows)
        if isinstance(x, OpenDict):
            if x.closed or x.default is None:
                return len(x.entries)
            raise Unsupported("len of open dictionary")
        if isinstance(x, Sym) and x.kind == "str":
            return simp(Sym(z3.Length(x.t), "int"))
        if isinstance(x, Obj):
            return I.call_method(x, "__len__", [])
        if isinstance(x, RangeVal):
            return ops.nonneg_len(ops.scalar_binop("-", x.stop, x.start))
        if isinstance(x, GenVal):
            return len(x.items)
        if type(x).__name__ == "MapVal":
            n = ctx.fresh("rows_on_map", "int")
            ctx.facts.append(n.t >= 0)
            return n
        if type(x).__name__ == "TableVal":
            return len(x.rows) if isinstance(x.rows, list) else x.rows.length
        raise PyRaise("TypeError", f"object of type {type(x).__name__} has no len()")

    @native("range")
    def _range(ctx, *a):
        if len(a) == 1:
            return RangeVal(0, a[0], 1)
        if len(a) == 2:
            return RangeVal(a[0], a[1], 1)
        return RangeVal(a[0], a[1], a[2])

    @native("isinstance")
    def _isinstance(ctx, v, t):
        ts = t if isinstance(t, (tuple, list)) else [t]
        return any(type_matches(v, x) for x in ts)

    @native("issubclass")
    def _issubclass(ctx, c, t):
        return isinstance(c, ClassVal) and isinstance(t, ClassVal) and t in c.mro

    @native("hasattr")
    def _hasattr(ctx, o, name):
        try:
            I.get_attr(o, name)
            return True
        except PyExc:
            return False

    @native("getattr")
    def _getattr(ctx, o, name, *d):
        try:
            return I.get_attr(o, name)
        except PyExc:
            if d:
                return d[0]
            raise

    @native("setattr")
    def _setattr(ctx, o, name, v):
        I.set_attr(o, name, v)

    @native("callable")
    def _callable(ctx, o):
        return isinstance(o, (FuncVal, BoundMethod, Native, ClassVal))

    @native("id")
    def _id(ctx, o):
        return id(o)

    @native("type")
    def _type(ctx, v):
        if isinstance(v, Obj):
            return v.cls
        return B[type_name(v)] if type_name(v) in B else Opaque("type")

    @native("abs")
    def _abs(ctx, x):
        if isinstance(x, Arr):
            return ops.arr_map(ops.scalar_abs, x)
        if isinstance(x, Obj):
            return I.call_method(x, "__abs__", [])
        return ops.scalar_abs(x)

    def _minmax(which):
        def f(ctx, *a, key=None, default=None):
            if len(a) == 1 and isinstance(a[0], Arr) and not a[0].concrete_len() and key is None:
                from .npmodel import sym_extreme

                return sym_extreme(ctx, a[0], which)
            if len(a) == 1:
                items = I.iterate(a[0])
            else:
                items = list(a)
            if not items:
                if default is not None:
                    return default
                raise PyRaise("ValueError", f"{which}() arg is an empty sequence")
            if key is not None:
                keyed = [(I.call(key, [x], {}), x) for x in items]
                best_k, best = keyed[0]
                for k, x in keyed[1:]:
                    c = ops.scalar_compare("<" if which == "min" else ">", k, best_k)
                    if isinstance(c, bool):
                        if c:
                            best_k, best = k, x
                    else:
                        if ctx.branch(c):
                            best_k, best = k, x
                return best
            out = items[0]
            for x in items[1:]:
                if isinstance(x, (tuple, list, str)) or isinstance(out, (tuple, list, str)):
                    c = I.compare_lt(x, out) if which == "min" else I.compare_lt(out, x)
                    if ctx.branch(c):
                        out = x
                else:
                    out = ops.smin(out, x) if which == "min" else ops.smax(out, x)
            return out
        return f

    B["min"] = Native("min", _minmax("min"))
    B["max"] = Native("max", _minmax("max"))

    @native("sum")
    def _sum(ctx, it, start=0):
        if type(it).__name__ == "MaskSel":
            from .npmodel import reduce_sum

            r = reduce_sum(ctx, it)
            return r if start == 0 else I.binop("+", start, r)
        if isinstance(it, Arr) and not it.concrete_len():
            from .npmodel import sym_sum

            r = sym_sum(ctx, it)
            return r if start == 0 else I.binop("+", start, r)
        acc = start
        for x in I.iterate(it):
            acc = I.binop("+", acc, x)
        return acc

    @native("round")
    def _round(ctx, x, nd=None):
        if isinstance(x, Arr):
            return ops.arr_map(lambda v: ops.py_round(v, nd), x)
        return ops.py_round(x, nd)

    @native("pow")
    def _pow(ctx, a, b):
        return ops.scalar_binop("**", a, b)

    @native("divmod")
    def _divmod(ctx, a, b):
        return (ops.scalar_binop("//", a, b), ops.scalar_binop("%", a, b))

    @native("int", type_tag="int")
    def _int(ctx, x=0):
        return ops.to_int_trunc(x)

    @native("float", type_tag="float")
    def _float(ctx, x=0):
        if isinstance(x, str):
            s = x.strip().lower()
            if s in ("nan",):
                return NAN
            if s in ("inf", "infinity", "+inf"):
                return INF
        if isinstance(x, Arr) and x.concrete_len() and x.length == 1:
            return ops.to_float(x.get(0))
        return ops.to_float(x)

    @native("bool", type_tag="bool")
    def _bool(ctx, x=False):
        return I.truth(x)

    @native("str", type_tag="str")
    def _str(ctx, x=""):
        return I.to_str(x)

    @native("repr")
    def _repr(ctx, x=""):
        return I.to_str(x)

    @native("list", type_tag="list")
    def _list(ctx, x=()):
        if isinstance(x, Arr) and not x.concrete_len():
            return Arr(x.length, fn=x.fn, dtype=x.dtype, is_nd=False)
        return list(I.iterate(x))

    @native("tuple", type_tag="tuple")
    def _tuple(ctx, x=()):
        return tuple(I.iterate(x))

    @native("set", type_tag="set")
    def _set(ctx, x=()):
        return set(I.hashable(v) for v in I.iterate(x))

    @native("frozenset", type_tag="frozenset")
    def _fset(ctx, x=()):
        return frozenset(I.hashable(v) for v in I.iterate(x))

    @native("dict", type_tag="dict")
    def _dict(ctx, x=None, **kw):
        d = {}
        if x is not None:
            if isinstance(x, dict):
                d.update(x)
            elif isinstance(x, OpenDict):
                return opendict_copy(x)
            else:
                for kv in I.iterate(x):
                    k, v = I.iterate(kv)
                    d[I.hashable(k)] = v
        d.update(kw)
        return d

    @native("object", type_tag="object")
    def _object(ctx):
        return Obj(ClassVal("object", [], {}, None))

    @native("enumerate")
    def _enumerate(ctx, it, start=0):
        return [(start + k, x) for k, x in enumerate(I.iterate(it))]

    @native("zip")
    def _zip(ctx, *its):
        return [tuple(t) for t in zip(*[I.iterate(x) for x in its])]

    @native("reversed")
    def _reversed(ctx, it):
        return list(reversed(I.iterate(it)))

    @native("sorted")
    def _sorted(ctx, it, key=None, reverse=False):
        items = I.iterate(it)
        return sort_values(I, ctx, items, key, reverse)

    @native("any")
    def _any(ctx, it):
        if isinstance(it, GenVal) and isinstance(it.items, Arr):
            it = it.items
        if isinstance(it, Arr) and not it.concrete_len():
            from .npmodel import sym_any

            return sym_any(ctx, it)
        acc = False
        for x in I.iterate(it):
            t = I.truth(x)
            if t is True:
                return True
            if t is False:
                continue
            acc = t if acc is False else ops.s_or(acc, t)
        return acc

    @native("all")
    def _all(ctx, it):
        if isinstance(it, GenVal) and isinstance(it.items, Arr):
            it = it.items
        if isinstance(it, Arr) and not it.concrete_len():
            from .npmodel import sym_all

            return sym_all(ctx, it)
        acc = True
        for x in I.iterate(it):
            t = I.truth(x)
            if t is False:
                return False
            if t is True:
                continue
            acc = t if acc is True else ops.s_and(acc, t)
        return acc

    @native("map")
    def _map(ctx, f, *its):
        return [I.call(f, list(t), {}) for t in zip(*[I.iterate(x) for x in its])]

    @native("filter")
    def _filter(ctx, f, it):
        out = []
        for x in I.iterate(it):
            c = I.truth(I.call(f, [x], {}) if f is not None else x)
            if ctx.branch(c):
                out.append(x)
        return out

    @native("iter")
    def _iter(ctx, it):
        return GenVal(I.iterate(it))

    @native("next")
    def _next(ctx, g, *d):
        if isinstance(g, GenVal):
            if g.items:
                return g.items.pop(0)
            if d:
                return d[0]
            raise PyRaise("StopIteration", "")
        raise Unsupported("next() of non-generator")

    @native("open")
    def _open(ctx, *a, **k):
        raise Unsupported("file I/O is not modelled")

    @native("exit")
    def _exit(ctx, *a):
        raise PyExc(ExcVal("SystemExit", tuple(a)))

    @native("input")
    def _input(ctx, *a):
        raise Unsupported("input()")

    @native("vars")
    def _vars(ctx, o):
        if isinstance(o, Obj):
            return o.attrs
        raise Unsupported("vars()")

    @native("dir")
    def _dir(ctx, o):
        if isinstance(o, Obj):
            names = set(o.attrs)
            for c in o.cls.mro:
                names |= set(c.ns)
            return sorted(names)
        raise Unsupported("dir()")

    for name in list(EXC_PARENTS) + ["BaseException"]:
        def mk(name):
            def f(ctx, *a):
                return ExcVal(name, tuple(a))
            return f
        B[name] = Native(name, mk(name), type_tag=name)

    B["NotImplemented"] = Opaque("NotImplemented")
    B["Ellipsis"] = Ellipsis

    # ---- small library modules
    def deepcopy(ctx, v):
        return deep_copy(v, {})

    def shallow_copy(ctx, v):
        if isinstance(v, list):
            return list(v)
        if isinstance(v, dict):
            return dict(v)
        if isinstance(v, OpenDict):
            return opendict_copy(v)
        if isinstance(v, Arr):
            return v.copy()
        if isinstance(v, Obj):
            o = Obj(v.cls, dict(v.attrs))
            return o
        return v

    I.native_modules["copy"] = NativeModule("copy", {
        "deepcopy": Native("copy.deepcopy", deepcopy), "copy": Native("copy.copy", shallow_copy)})

    def sys_exit(ctx, *a):
        raise PyExc(ExcVal("SystemExit", tuple(a)))

    I.native_modules["sys"] = NativeModule("sys", {
        "exit": Native("sys.exit", sys_exit), "argv": ["pyvc"], "path": [],
        "float_info": Opaque("sys.float_info"), "maxsize": 2 ** 63 - 1})
    class PathVal:
        """pathlib.Path / os.path values: opaque, composable with '/', never opened."""
        def __init__(self, s):
            self.s = s
        def __repr__(self):
            return f"Path({self.s})"

    I.PathVal = PathVal

    def mk_path(ctx, *parts):
        return PathVal("/".join(str(getattr(p, "s", p)) if not isinstance(p, Opaque) else "<repo_root>" for p in parts))

    I.native_modules["os"] = NativeModule("os", {
        "path": NativeModule("os.path", {
            "exists": Native("os.path.exists", lambda ctx, p: True),
            "join": Native("os.path.join", mk_path),
        }),
        "mkdir": Native("os.mkdir", lambda ctx, p: None),
        "makedirs": Native("os.makedirs", lambda ctx, p, **k: None),
    })
    I.native_modules["os.path"] = I.native_modules["os"].ns["path"]
    I.native_modules["pathlib"] = NativeModule("pathlib", {"Path": Native("pathlib.Path", mk_path)})

    def read_csv(ctx, path, *a, **k):
        hook = getattr(I, "table_hook", None)
        if hook is None:
            raise Unsupported("pandas.read_csv: file contents are not modelled (no table supplied by the contract)")
        return hook(path)

    def data_frame(ctx, data=None, *a, **k):
        from .pdmodel import FrameVal
        return FrameVal(data)

    I.native_modules["pandas"] = NativeModule("pandas", {"read_csv": Native("pandas.read_csv", read_csv),
                                                        "DataFrame": Native("pandas.DataFrame", data_frame)})
    I.native_modules["warnings"] = NativeModule("warnings", {}, dropped=True)
    class TimeVal:
        """datetime / date values: only used to build file names; every field is the string-able 0"""

    def time_attr(obj, name):
        if isinstance(obj, TimeVal):
            if name in ("today", "now", "date", "time"):
                return Native("datetime." + name, lambda ctx, *a, **k: TimeVal())
            return 0
        return None

    I._time_attr = time_attr
    I.TimeVal = TimeVal
    dt_cls = TimeVal()
    I.native_modules["datetime"] = NativeModule("datetime", {"date": dt_cls, "datetime": dt_cls})

    import re as _re

    def re_sub(ctx, pattern, repl, string, *a, **k):
        if all(isinstance(x, str) for x in (pattern, repl, string)):
            return _re.sub(pattern, repl, string)
        raise Unsupported("re.sub on symbolic strings")

    I.native_modules["re"] = NativeModule("re", {"sub": Native("re.sub", re_sub)})
    I.native_modules["git"] = NativeModule("git", {"Repo": Native("git.Repo", lambda ctx, *a, **k: Obj(ClassVal("Repo", [], {}, None), {"working_dir": I.PathVal("<repo_root>")}))})
    I.native_modules["itertools"] = NativeModule("itertools", {
        "product": Native("itertools.product", lambda ctx, *its: [tuple(t) for t in __import__("itertools").product(*[I.iterate(x) for x in its])]),
    })

    def m_sqrt(ctx, x):
        raise Unsupported("math.sqrt")

    def m_isnan(ctx, x):
        return x is NAN

    def m_floor(ctx, x):
        if isinstance(x, (int, Fraction)):
            import math

            return math.floor(x)
        return simp(Sym(z3.ToInt(ops.as_real(x)), "int"))

    def m_ceil(ctx, x):
        if isinstance(x, (int, Fraction)):
            import math

            return math.ceil(x)
        return simp(Sym(-z3.ToInt(-ops.as_real(x)), "int"))

    def m_isclose(ctx, a, b, rel_tol=Fraction(1, 10 ** 9), abs_tol=0):
        d = ops.scalar_abs(ops.scalar_binop("-", a, b))
        bound = ops.smax(ops.scalar_binop("*", rel_tol, ops.smax(ops.scalar_abs(a), ops.scalar_abs(b))), abs_tol)
        return ops.scalar_compare("<=", d, bound)

    I.native_modules["math"] = NativeModule("math", {
        "sqrt": Native("math.sqrt", m_sqrt), "isnan": Native("math.isnan", m_isnan),
        "floor": Native("math.floor", m_floor), "ceil": Native("math.ceil", m_ceil),
        "isclose": Native("math.isclose", m_isclose),
        "inf": INF, "nan": NAN, "pi": Fraction("3.141592653589793"), "e": Fraction("2.718281828459045")})

    def approx(ctx, expected, rel=None, abs=None):
        return ApproxVal(expected, rel, abs)

    I.native_modules["pytest"] = NativeModule("pytest", {"approx": Native("pytest.approx", approx)})

    def compare_lt(a, b):
        from .interp import ast as _ast
        import ast

        if isinstance(a, (tuple, list)) and isinstance(b, (tuple, list)):
            for x, y in zip(a, b):
                eq = I.truth(I.compare(ast.Eq(), x, y))
                if isinstance(eq, bool):
                    if eq:
                        continue
                    return compare_lt(x, y)
                if I.ctx.branch(eq):
                    continue
                return compare_lt(x, y)
            return len(a) < len(b)
        return I.truth(I.compare(ast.Lt(), a, b))

    I.compare_lt = compare_lt


class ApproxVal:
    def __init__(self, expected, rel, abs_):
        self.expected, self.rel, self.abs = expected, rel, abs_


def sort_values(I, ctx, items, key, reverse):
    """Insertion sort forking on symbolic comparisons (stable, like sorted())."""
    keyed = [(I.call(key, [x], {}) if key is not None else x, x) for x in items]
    out = []
    for k, x in keyed:
        pos = len(out)
        for j in range(len(out)):
            kj = out[j][0]
            # stable: insert before the first element that must come strictly after
            c = I.compare_lt(k, kj) if not reverse else I.compare_lt(kj, k)
            if ctx.branch(c):
                pos = j
                break
        out.insert(pos, (k, x))
    return [x for _, x in out]


def deep_copy(v, memo):
    if id(v) in memo:
        return memo[id(v)]
    if isinstance(v, list):
        out = []
        memo[id(v)] = out
        out.extend(deep_copy(x, memo) for x in v)
        return out
    if isinstance(v, tuple):
        return tuple(deep_copy(x, memo) for x in v)
    if isinstance(v, dict):
        out = {}
        memo[id(v)] = out
        for k, x in v.items():
            out[k] = deep_copy(x, memo)
        return out
    if isinstance(v, OpenDict):
        out = OpenDict(v.name, {}, v.default, v.closed)
        memo[id(v)] = out
        # values of unread keys are the same symbols in both copies (they are immutable scalars)
        for k, x in v.entries.items():
            out.entries[k] = deep_copy(x, memo)
        out.deleted = set(v.deleted)
        return out
    if isinstance(v, Arr):
        out = v.copy()
        memo[id(v)] = out
        if out.elems is not None and out.dtype == "object":
            out.elems = [deep_copy(x, memo) for x in out.elems]
        return out
    if isinstance(v, Obj):
        out = Obj(v.cls, {})
        memo[id(v)] = out
        for k, x in v.attrs.items():
            out.attrs[k] = deep_copy(x, memo)
        return out
    if isinstance(v, set):
        return set(v)
    return v


def opendict_copy(v):
    out = OpenDict(v.name, dict(v.entries), v.default, v.closed)
    out.deleted = set(v.deleted)
    return out


def type_name(v):
    if isinstance(v, bool) or (isinstance(v, Sym) and v.kind == "bool"):
        return "bool"
    if isinstance(v, int) or (isinstance(v, Sym) and v.kind == "int"):
        return "int"
    if isinstance(v, (Fraction, FloatSpecial)) or (isinstance(v, Sym) and v.kind == "float"):
        return "float"
    if isinstance(v, str) or (isinstance(v, Sym) and v.kind == "str"):
        return "str"
    if isinstance(v, list) or (isinstance(v, Arr) and not v.is_nd):
        return "list"
    if isinstance(v, tuple):
        return "tuple"
    if isinstance(v, (dict, OpenDict)):
        return "dict"
    if isinstance(v, Arr) or isinstance(v, Arr2):
        return "ndarray"
    if isinstance(v, (set,)):
        return "set"
    if v is None:
        return "NoneType"
    return type(v).__name__


def type_matches(v, t):
    from .interp import ExcVal, exc_isinstance
    from .values import NpInt

    if isinstance(v, NpInt):
        return isinstance(t, Native) and t.type_tag in ("object", "np.number", "np.integer")

    if isinstance(t, ClassVal):
        if isinstance(v, Obj):
            return t in v.cls.mro
        if isinstance(v, ExcVal) and v.cls is not None:
            return t in v.cls.mro
        return False
    if isinstance(t, Native) and t.type_tag:
        tag = t.type_tag
        tn = type_name(v)
        if tag == "object":
            return True
        if tag == "int":
            return tn in ("int", "bool")
        if tag == "float":
            return tn == "float"
        if tag == "np.number":
            # numpy scalar types are folded into Python numbers (DESIGN 2.2): any non-bool number
            return tn in ("int", "float") and isinstance(v, Sym) and getattr(v, "np_scalar", True)
        if tag == "np.floating":
            return tn == "float"
        if tag == "np.integer":
            return False
        if tag == "ndarray":
            return tn == "ndarray"
        if tag in ("str", "list", "tuple", "dict", "bool", "set"):
            return tn == tag
        if isinstance(v, ExcVal):
            return exc_isinstance(v.cls_name, tag)
        if tag in ("LpVariable",):
            return isinstance(v, LpVar)
        return False
    if isinstance(t, Opaque):
        return False
    raise Unsupported(f"isinstance against {t!r}")


# ------------------------------------------------------------------------------------------------
# subscripting of builtin sequences


SliceValT = None


def norm_index(I, i, length):
    """Python index normalisation; returns int or z3 term; raises IndexError when provably out of range."""
    if isinstance(i, bool):
        i = int(i)
    if isinstance(i, int) and isinstance(length, int):
        if i < 0:
            i += length
        if not (0 <= i < length):
            raise PyRaise("IndexError", "index out of range")
        return i
    if isinstance(i, Fraction):
        raise PyRaise("TypeError", "indices must be integers")
    it = ops.as_int_term(i)
    lt = ops.as_int_term(length)
    ctx = I.ctx
    if isinstance(i, int):
        if i < 0:
            idx = lt + i
        else:
            idx = z3.IntVal(i)
    else:
        neg = simp(Sym(it < 0, "bool"))
        if isinstance(neg, bool):
            idx = lt + it if neg else it
        elif ctx.entails(z3.Not(neg.t)):
            idx = it
        elif ctx.branch(neg):
            idx = lt + it
        else:
            idx = it
    inr = simp(Sym(z3.And(idx >= 0, idx < lt), "bool"))
    if isinstance(inr, bool):
        if not inr:
            raise PyRaise("IndexError", "index out of range")
    elif not ctx.entails(inr.t):
        if not ctx.branch(inr):
            raise PyRaise("IndexError", "index out of range")
    idx = z3.simplify(idx)
    if z3.is_int_value(idx):
        return idx.as_long()
    ctx.add_index(idx)
    return idx


def slice_bounds(I, s, length):
    """-> (lo, hi) clamped to [0, length] as values (int or Sym); step must be None/1."""
    if s.step is not None and s.step != 1:
        raise Unsupported("slice step")

    def clamp(v, default):
        if v is None:
            return default
        if isinstance(v, int) and isinstance(length, int):
            if v < 0:
                v += length
            return max(0, min(length, v))
        neg = ops.scalar_compare("<", v, 0)
        vv = ops.ite(neg, ops.scalar_binop("+", v, length), v) if not isinstance(neg, bool) else (
            ops.scalar_binop("+", v, length) if neg else v)
        return ops.smax(0, ops.smin(length, vv))

    lo = clamp(s.lo, 0)
    hi = clamp(s.hi, length)
    return lo, hi


def seq_getitem(I, obj, key):
    from .interp import SliceVal, RangeVal

    if isinstance(obj, (list, tuple, str)):
        if isinstance(key, SliceVal):
            if all(x is None or isinstance(x, int) for x in (key.lo, key.hi, key.step)):
                return obj[slice(key.lo, key.hi, key.step)]
            if isinstance(obj, str):
                raise Unsupported("symbolic slice of a concrete string")
            return seq_getitem(I, Arr(len(obj), elems=list(obj), dtype="object", is_nd=False), key)
        if isinstance(key, (int,)):
            return obj[norm_index(I, key, len(obj))]
        if isinstance(key, Sym):
            if isinstance(obj, str):
                raise Unsupported("symbolic index into a concrete string")
            idx = norm_index(I, key, len(obj))
            return Arr(len(obj), elems=list(obj), dtype="object", is_nd=False).get(idx)
        raise PyRaise("TypeError", f"indices must be integers, not {key!r}")
    if isinstance(obj, Arr):
        if isinstance(key, SliceVal):
            lo, hi = slice_bounds(I, key, obj.length)
            if isinstance(lo, int) and isinstance(hi, int) and obj.concrete_len():
                els = [obj.get(k) for k in range(lo, max(lo, hi))]
                if not obj.is_nd:
                    return els
                r_ = Arr(len(els), elems=els, dtype=obj.dtype, is_nd=True)
                r_.view_of = (obj, lo)  # a basic slice of an ndarray is a VIEW: in-place writes go through (ops.write_back)
                return r_
            ln = ops.smax(0, ops.scalar_binop("-", hi, lo))
            base = obj

            def fn(i, lo=lo, base=base):
                iv = i if isinstance(i, int) else Sym(i, "int")
                k = ops.scalar_binop("+", lo, iv)
                return base.get(k.t if isinstance(k, Sym) else k)

            # a slice of a numpy array is a view; the code base never writes through slices it took,
            # so a snapshot is taken (writes through views would be Unsupported below anyway)
            snap = obj.copy()
            base = snap
            r_ = Arr(ln, fn=lambda i, lo=lo, snap=snap: fn(i, lo, snap), dtype=obj.dtype, is_nd=obj.is_nd)
            if obj.is_nd:
                r_.view_of = (obj, None)  # symbolic bounds: a write through this view cannot be propagated (Unsupported)
            return r_
        if isinstance(key, Arr) and key.dtype == "bool":
            if not obj.is_nd:
                raise PyRaise("TypeError", "only integer scalar arrays can be converted to a scalar index")
            if not ops.same_length(obj, key):
                raise Unsupported("boolean mask of another length")
            from .values import MaskSel
            return MaskSel(obj.copy(), key.copy())
        if isinstance(key, (Arr, list)):
            idxs = I.iterate(key)
            els = [obj.get(norm_index(I, k, obj.length)) for k in idxs]
            return Arr(len(els), elems=els, dtype=obj.dtype, is_nd=obj.is_nd)
        if isinstance(key, tuple):
            raise Unsupported("multi-dimensional index on a 1-D array")
        idx = norm_index(I, key, obj.length)
        return obj.get(idx)
    if isinstance(obj, Arr2):
        if isinstance(key, int):
            r = obj.rows[key]
            return Arr(len(r), elems=list(r), dtype=obj.dtype)
        if isinstance(key, tuple) and len(key) == 2 and all(isinstance(k, int) for k in key):
            return obj.rows[key[0]][key[1]]
        raise Unsupported("2-D array indexing form")
    if isinstance(obj, RangeVal):
        if isinstance(key, int):
            return list(range(obj.start, obj.stop, obj.step))[key]
    if isinstance(obj, Sym) and obj.kind == "str":
        raise Unsupported("subscript of a symbolic string")
    if obj is None:
        raise PyRaise("TypeError", "'NoneType' object is not subscriptable")
    raise Unsupported(f"subscript of {type(obj).__name__}")


def seq_setitem(I, obj, key, v):
    from .interp import SliceVal

    if isinstance(obj, list):
        if isinstance(key, SliceVal):
            if all(x is None or isinstance(x, int) for x in (key.lo, key.hi, key.step)):
                obj[slice(key.lo, key.hi, key.step)] = I.iterate(v)
                return
            raise Unsupported("symbolic slice assignment into a list")
        idx = norm_index(I, key, len(obj))
        if isinstance(idx, int):
            obj[idx] = v
            return
        for k in range(len(obj)):
            obj[k] = ops.ite(Sym(idx == k, "bool"), v, obj[k])
        return
    if isinstance(obj, Arr) and getattr(obj, "view_of", None) is not None and not getattr(I, "_in_write_back", False):
        I._in_write_back = True
        try:
            seq_setitem(I, obj, key, v)
        finally:
            I._in_write_back = False
        ops.write_back(obj)
        return
    if isinstance(obj, Arr):
        if isinstance(key, SliceVal):
            lo, hi = slice_bounds(I, key, obj.length)
            if isinstance(lo, int) and isinstance(hi, int) and obj.concrete_len():
                els = obj.materialise()
                if isinstance(v, (Arr, list, tuple)):
                    vals = I.iterate(v)
                    if len(vals) != max(0, hi - lo):
                        if len(vals) == 1:
                            vals = vals * max(0, hi - lo)
                        else:
                            raise PyRaise("ValueError", "could not broadcast input array into slice")
                else:
                    vals = [v] * max(0, hi - lo)
                for k, x in zip(range(lo, hi), vals):
                    els[k] = ops.cast_elem(x, obj.dtype) if obj.is_nd else x
                return
            old = obj.copy()
            lot = ops.as_int_term(lo)
            hit = ops.as_int_term(hi)
            src = v

            def fn(i, old=old, src=src, lo=lo):
                it = i if not isinstance(i, int) else z3.IntVal(i)
                inside = simp(Sym(z3.And(it >= lot, it < hit), "bool"))
                if isinstance(src, Arr):
                    iv = i if isinstance(i, int) else Sym(i, "int")
                    k = ops.scalar_binop("-", iv, lo)
                    nv = src.get(k.t if isinstance(k, Sym) else k) if not (isinstance(inside, bool) and not inside) else None
                else:
                    nv = src
                if isinstance(inside, bool):
                    return (ops.cast_elem(nv, obj.dtype) if obj.is_nd else nv) if inside else old.get(i)
                return ops.ite(inside, ops.cast_elem(nv, obj.dtype) if obj.is_nd else nv, old.get(i))

            obj.elems, obj.fn = None, fn
            return
        if isinstance(key, Arr) and key.dtype == "bool":
            # arr[mask] = scalar
            old = obj.copy()
            if isinstance(v, (Arr, list)):
                raise Unsupported("boolean-mask assignment of an array")
            nv = ops.cast_elem(v, obj.dtype)
            key = ops._snap(key)
            res = Arr(obj.length, fn=lambda i: ops.ite(key.get(i), nv, old.get(i)), dtype=obj.dtype)
            if obj.concrete_len():
                res.materialise()
            obj.elems, obj.fn = res.elems, res.fn
            return
        idx = norm_index(I, key, obj.length)
        nv = ops.cast_elem(v, obj.dtype) if obj.is_nd else v
        if isinstance(idx, int) and obj.concrete_len():
            obj.materialise()[idx] = nv
            return
        old = obj.copy()
        idt = idx if not isinstance(idx, int) else z3.IntVal(idx)

        def fn(i, old=old, nv=nv, idt=idt):
            it = i if not isinstance(i, int) else z3.IntVal(i)
            c = simp(Sym(it == idt, "bool"))
            if isinstance(c, bool):
                return nv if c else old.get(i)
            return ops.ite(c, nv, old.get(i))

        obj.elems, obj.fn = None, fn
        return
    if isinstance(obj, Arr2) and isinstance(key, tuple) and all(isinstance(k, int) for k in key):
        obj.rows[key[0]][key[1]] = v
        return
    raise Unsupported(f"item assignment on {type(obj).__name__}")


# ------------------------------------------------------------------------------------------------
# attributes (methods) of builtin values


def builtin_attr(I, obj, name):
    from .interp import SuperVal, ExcVal, PyExc, GenVal
    from . import npmodel

    ctx = I.ctx

    def N(f):
        return Native(f"{type_name(obj)}.{name}", f)

    if isinstance(obj, SuperVal):
        mro = obj.selfv.cls.mro if isinstance(obj.selfv, Obj) else obj.selfv.mro
        k = mro.index(obj.owner)
        for c in mro[k + 1:]:
            if name in c.ns:
                return I.bind(c.ns[name], obj.selfv, c)
        if name == "__init__":
            return N(lambda ctx, *a, **kw: None)
        raise PyExc(ExcVal("AttributeError", (f"super has no attribute {name}",)))

    if isinstance(obj, list):
        if name == "append":
            return N(lambda ctx, x: obj.append(x))
        if name == "extend":
            return N(lambda ctx, x: obj.extend(I.iterate(x)))
        if name == "insert":
            return N(lambda ctx, i, x: obj.insert(i, x))
        if name == "pop":
            return N(lambda ctx, *a: obj.pop(*a))
        if name == "copy":
            return N(lambda ctx: list(obj))
        if name == "reverse":
            return N(lambda ctx: obj.reverse())
        if name == "clear":
            return N(lambda ctx: obj.clear())
        if name == "index":
            def _index(ctx, x):
                import ast
                for k, y in enumerate(obj):
                    if ctx.branch(I.truth(I.compare(ast.Eq(), x, y))):
                        return k
                raise PyRaise("ValueError", "not in list")
            return N(_index)
        if name == "count":
            def _count(ctx, x):
                import ast
                acc = 0
                for y in obj:
                    acc = ops.scalar_binop("+", acc, ops.ite(I.truth(I.compare(ast.Eq(), x, y)), 1, 0))
                return acc
            return N(_count)
        if name == "remove":
            def _remove(ctx, x):
                import ast
                for k, y in enumerate(obj):
                    if ctx.branch(I.truth(I.compare(ast.Eq(), x, y))):
                        del obj[k]
                        return None
                raise PyRaise("ValueError", "list.remove(x): x not in list")
            return N(_remove)
        if name == "sort":
            def _sort(ctx, key=None, reverse=False):
                obj[:] = sort_values(I, ctx, list(obj), key, reverse)
            return N(_sort)
    if isinstance(obj, tuple):
        if name == "index":
            return N(lambda ctx, x: obj.index(x))
        if name == "count":
            return N(lambda ctx, x: obj.count(x))
    if isinstance(obj, dict):
        if name == "get":
            def _dget(ctx, k, d=None):
                kk = I.dict_find(obj, k)
                return d if kk is I._MISSING else obj[kk]
            return N(_dget)
        if name == "keys":
            return N(lambda ctx: list(obj.keys()))
        if name == "values":
            return N(lambda ctx: list(obj.values()))
        if name == "items":
            return N(lambda ctx: list(obj.items()))
        if name == "copy":
            return N(lambda ctx: dict(obj))
        if name == "update":
            def _update(ctx, other=None, **kw):
                if other is not None:
                    obj.update(other.entries if isinstance(other, OpenDict) else other)
                obj.update(kw)
            return N(_update)
        if name == "pop":
            def _pop(ctx, k, *d):
                k = I.hashable(k)
                if k in obj:
                    return obj.pop(k)
                if d:
                    return d[0]
                raise PyRaise("KeyError", repr(k))
            return N(_pop)
        if name == "setdefault":
            def _setdefault(ctx, k, d=None):
                kk = I.dict_find(obj, k)
                if kk is I._MISSING:
                    obj[I.hashable(k)] = d
                    return d
                return obj[kk]
            return N(_setdefault)
    if isinstance(obj, OpenDict):
        if name == "get":
            def _get(ctx, k, d=None):
                k = I.hashable(k)
                if k in obj.entries:
                    obj.read.add(k)
                    return obj.entries[k]
                if k in obj.deleted or obj.closed or obj.default is None:
                    return d
                raise Unsupported(f".get() of unwritten key {k!r} in open dictionary {obj.name}")
            return N(_get)
        if name == "copy":
            return N(lambda ctx: opendict_copy(obj))
        if name == "keys":
            # membership tests on the view go to the dictionary itself; iteration needs a closed dictionary
            return N(lambda ctx: obj if not (obj.closed or obj.default is None) else I.iterate(obj))
        if name == "items":
            return N(lambda ctx: [(k, obj.entries[k]) for k in I.iterate(obj)])
        if name == "values":
            return N(lambda ctx: [obj.entries[k] for k in I.iterate(obj)])
        if name == "update":
            def _update(ctx, other=None, **kw):
                src = dict(other.entries if isinstance(other, OpenDict) else (other or {}))
                src.update(kw)
                for k, v in src.items():
                    I.set_item(obj, k, v)
            return N(_update)
        if name == "pop":
            def _pop(ctx, k, *d):
                k = I.hashable(k)
                if k in obj.entries:
                    v = obj.entries.pop(k)
                    obj.deleted.add(k)
                    obj.written.add(k)
                    return v
                if d and (k in obj.deleted or obj.closed or obj.default is None):
                    return d[0]
                raise Unsupported(f".pop() of unwritten key in open dictionary {obj.name}")
            return N(_pop)
    if isinstance(obj, str):
        simple = {"lower", "upper", "strip", "lstrip", "rstrip", "split", "replace", "startswith", "endswith",
                  "title", "capitalize", "join", "format", "find", "count", "isdigit", "removesuffix",
                  "removeprefix", "rsplit", "splitlines", "zfill", "index", "isalpha", "isnumeric", "rfind",
                  "ljust", "rjust", "center", "partition", "rpartition"}
        if name in simple:
            def _m(ctx, *a, **kw):
                if any(isinstance(x, Sym) for x in a):
                    return sym_str_method(I, obj, name, a)
                if name == "join":
                    items = I.iterate(a[0])
                    if any(isinstance(x, Sym) for x in items):
                        out = None
                        for k, x in enumerate(items):
                            out = x if out is None else ops.scalar_binop("+", ops.scalar_binop("+", out, obj), x)
                        return out if out is not None else ""
                    return obj.join(items)
                if name == "format":
                    return obj.format(*[I.to_str(x) if not isinstance(x, (int, str)) else x for x in a],
                                      **{k: I.to_str(v) for k, v in kw.items()})
                r = getattr(obj, name)(*a, **kw)
                if isinstance(r, tuple):
                    return tuple(r)
                return r
            return N(_m)
    if isinstance(obj, Sym) and obj.kind == "str":
        return N(lambda ctx, *a: sym_str_method(I, obj, name, a))
    if isinstance(obj, Arr):
        return npmodel.arr_attr(I, obj, name)
    if isinstance(obj, Arr2):
        return npmodel.arr2_attr(I, obj, name)
    if isinstance(obj, (Fraction, int)) or (isinstance(obj, Sym) and obj.kind in ("int", "float")):
        if name == "is_integer":
            return N(lambda ctx: obj.denominator == 1 if isinstance(obj, Fraction) else True)
        if name in ("real",):
            return obj
        if name == "item":
            return N(lambda ctx: obj)
        if name in ("sum", "min", "max", "mean", "all", "any", "copy", "squeeze", "flatten"):
            # numpy scalar methods
            return N(lambda ctx, *a, **k: obj)
        if name == "astype":
            return N(lambda ctx, t: I.call(t, [obj], {}))
        if name == "shape":
            return ()
        if name == "ndim":
            return 0
        if name == "size":
            return 1
        if name == "dtype":
            return Opaque("dtype")
    if isinstance(obj, bool) or (isinstance(obj, Sym) and obj.kind == "bool"):
        if name in ("all", "any", "item", "copy"):
            return N(lambda ctx, *a, **k: obj)  # numpy bool_ scalar methods
    if isinstance(obj, (set, frozenset)):
        if name == "add":
            return N(lambda ctx, x: obj.add(I.hashable(x)))
        if name == "union":
            return N(lambda ctx, o: obj | set(I.iterate(o)))
        if name == "issubset":
            return N(lambda ctx, o: obj <= set(I.iterate(o)))
        if name == "difference":
            return N(lambda ctx, o: obj - set(I.iterate(o)))
        if name == "intersection":
            return N(lambda ctx, o: obj & set(I.iterate(o)))
    if isinstance(obj, ExcVal):
        if name == "args":
            return obj.args
        if name == "code":
            return obj.args[0] if obj.args else None
    if isinstance(obj, LpVar):
        from .pulpmodel import lpvar_attr

        return lpvar_attr(I, obj, name)
    if isinstance(obj, (FuncVal, Native)):
        if name == "__name__":
            return obj.name
    if isinstance(obj, BoundMethod):
        if name == "__name__":
            return obj.func.name
        if name == "__self__":
            return obj.selfv
    if obj is None:
        raise PyExc(ExcVal("AttributeError", (f"'NoneType' object has no attribute '{name}'",)))
    if isinstance(obj, GenVal):
        pass
    hook = getattr(I, "extra_attr", None)
    if hook is not None:
        r = hook(obj, name)
        if r is not None:
            return r
    r = I._time_attr(obj, name)
    if r is not None:
        return r
    raise PyExc(ExcVal("AttributeError", (f"'{type_name(obj)}' object has no attribute '{name}'",)))


def sym_str_method(I, s, name, a):
    """String methods with at least one symbolic participant (z3 sequence theory)."""
    ts, _ = ops.term_of(s)
    if name == "replace":
        if len(a) != 2:
            raise Unsupported("str.replace with count")
        t1, _ = ops.term_of(a[0])
        t2, _ = ops.term_of(a[1])
        # Python replaces all occurrences; z3's str.replace only the first.  For the unit-label suffixes in
        # scope (" each month", " per month") a label contains at most one occurrence; replace_all keeps it exact.
        return simp(Sym(_replace_all(ts, t1, t2), "str"))
    if name == "startswith":
        t1, _ = ops.term_of(a[0])
        return simp(Sym(z3.PrefixOf(t1, ts), "bool"))
    if name == "endswith":
        t1, _ = ops.term_of(a[0])
        return simp(Sym(z3.SuffixOf(t1, ts), "bool"))
    if name == "split":
        sep, _ = ops.term_of(a[0])
        return SplitVal(ts, sep)
    if name == "lower":
        raise Unsupported("lower() of a symbolic string")
    if name == "find":
        t1, _ = ops.term_of(a[0])
        return simp(Sym(z3.IndexOf(ts, t1, 0), "int"))
    raise Unsupported(f"str.{name} on a symbolic string")


def _replace_all(s, a, b):
    f = getattr(z3, "ReplaceAll", None)
    if f is not None:
        try:
            return f(s, a, b)
        except Exception:
            pass
    return z3.Replace(s, a, b)


class SplitVal:
    """s.split(sep) of a symbolic string: only [0] is supported (prefix before the first separator)."""

    def __init__(self, s, sep):
        self.s, self.sep = s, sep
