"""Scalar / array / LP-expression operators of the pyvc value domain."""
from fractions import Fraction
import math
import z3
from .values import (
    Sym, Arr, Arr2, LpVar, LpExpr, LpConstraint, Unsupported, EngineError, NAN, INF, FloatSpecial,
    is_number, is_concrete_number, Opaque,
)

_POW = z3.Function("pow", z3.RealSort(), z3.RealSort(), z3.RealSort())


class PyRaise(Exception):
    """A Python-level exception raised by modelled semantics (class name + message)."""

    def __init__(self, cls_name, msg=""):
        self.cls_name = cls_name
        self.msg = msg
        super().__init__(f"{cls_name}: {msg}")


# ------------------------------------------------------------------------------------------------
# conversion to z3


def term_of(v):
    """-> (z3 term, kind) for a scalar value."""
    if isinstance(v, Sym):
        return v.t, v.kind
    if isinstance(v, bool):
        return z3.BoolVal(v), "bool"
    if isinstance(v, int):
        return z3.IntVal(v), "int"
    if isinstance(v, Fraction):
        return z3.RealVal(v), "float"
    if isinstance(v, str):
        return z3.StringVal(v), "str"
    if isinstance(v, (LpVar,)):
        return v.term, "float"
    if isinstance(v, LpExpr):
        return v.t, "float"
    raise EngineError(f"not a scalar: {v!r}")


def as_arith(v):
    """-> (z3 arith term, kind in int|float); bools are coerced to 0/1."""
    t, k = term_of(v)
    if k == "bool":
        if isinstance(v, bool):
            return z3.IntVal(1 if v else 0), "int"
        return z3.If(t, z3.IntVal(1), z3.IntVal(0)), "int"
    if k == "str":
        raise PyRaise("TypeError", "string in arithmetic")
    return t, k


def as_real(v):
    t, k = as_arith(v)
    return z3.ToReal(t) if k == "int" else t


def as_int_term(v):
    t, k = as_arith(v)
    if k != "int":
        raise EngineError(f"integer expected, got {v!r}")
    return t


def as_bool_term(v):
    """Truthiness of a scalar as a z3 Bool."""
    if isinstance(v, Sym):
        if v.kind == "bool":
            return v.t
        if v.kind in ("int", "float"):
            return v.t != 0
        if v.kind == "str":
            return z3.Length(v.t) > 0
    if isinstance(v, bool):
        return z3.BoolVal(v)
    if isinstance(v, (int, Fraction)):
        return z3.BoolVal(v != 0)
    raise EngineError(f"no truth term for {v!r}")


def simp(v):
    """Fold a Sym back to a concrete value when z3 can decide it syntactically."""
    if not isinstance(v, Sym):
        return v
    t = z3.simplify(v.t)
    if v.kind == "bool":
        if z3.is_true(t):
            return True
        if z3.is_false(t):
            return False
    elif v.kind == "int":
        if z3.is_int_value(t):
            return t.as_long()
    elif v.kind == "float":
        if z3.is_rational_value(t):
            return Fraction(t.numerator_as_long(), t.denominator_as_long())
    elif v.kind == "str":
        if z3.is_string_value(t):
            return t.as_string()
    return Sym(t, v.kind)


def is_sym(v):
    return isinstance(v, Sym)


def is_lp(v):
    return isinstance(v, (LpVar, LpExpr))


# ------------------------------------------------------------------------------------------------
# scalar arithmetic


def _flatten_muldiv(t, num, den, coef):
    """t = coef * prod(num) / prod(den); only re-associates products and quotients (never cancels a symbolic
    factor against a divisor, which would be unsound when the divisor may be zero)."""
    if z3.is_rational_value(t):
        coef[0] *= Fraction(t.numerator_as_long(), t.denominator_as_long())
        return
    k = t.decl().kind() if z3.is_app(t) else None
    if k == z3.Z3_OP_MUL:
        for c in t.children():
            _flatten_muldiv(c, num, den, coef)
        return
    if k == z3.Z3_OP_DIV:
        a, b = t.children()
        _flatten_muldiv(a, num, den, coef)
        # divisor: a product of atoms / numerals goes to the denominator (numerals must be non-zero)
        dn, dd, dc = [], [], [Fraction(1)]
        _flatten_muldiv(b, dn, dd, dc)
        if dd or dc[0] == 0:
            den.append(b)  # divisor itself contains a quotient or a zero numeral: keep it as one atom
        else:
            coef[0] /= dc[0]
            den.extend(dn)
        return
    if k == z3.Z3_OP_UMINUS:
        coef[0] = -coef[0]
        _flatten_muldiv(t.arg(0), num, den, coef)
        return
    num.append(t)


def norm_muldiv(t):
    """Canonical shape of a real product/quotient term: coefficient * sorted numerator atoms / sorted divisor atoms."""
    if not (z3.is_app(t) and t.decl().kind() in (z3.Z3_OP_MUL, z3.Z3_OP_DIV)) or not z3.is_real(t):
        return t
    num, den, coef = [], [], [Fraction(1)]
    _flatten_muldiv(t, num, den, coef)
    if coef[0] == 0:
        return z3.RealVal(0)
    num.sort(key=lambda x: x.get_id())
    den.sort(key=lambda x: x.get_id())
    out = None
    for x in num:
        out = x if out is None else out * x
    if coef[0] != 1 or out is None:
        c = z3.RealVal(coef[0])
        out = c if out is None else c * out
    if den:
        d = None
        for x in den:
            d = x if d is None else d * x
        out = out / d
    return out


def _py_floor_div_int(a, b):
    q = z3.If(b > 0, a / b, (-a) / (-b))
    return q


def scalar_binop(op, a, b):
    """op in + - * / // % **; a, b scalars (numbers, bools, Sym, Lp)."""
    if isinstance(a, FloatSpecial) or isinstance(b, FloatSpecial):
        if op in ("+", "-", "*", "/"):
            return NAN if (a is NAN or b is NAN) else INF
        raise Unsupported("arithmetic on nan/inf")
    if is_lp(a) or is_lp(b):
        return _lp_binop(op, a, b)
    if isinstance(a, str) or isinstance(b, str) or (isinstance(a, Sym) and a.kind == "str") or (
        isinstance(b, Sym) and b.kind == "str"
    ):
        return _str_binop(op, a, b)
    if not isinstance(a, Sym) and not isinstance(b, Sym):
        return _concrete_binop(op, a, b)
    ta, ka = as_arith(a)
    tb, kb = as_arith(b)
    if op == "/":
        ra = z3.ToReal(ta) if ka == "int" else ta
        rb = z3.ToReal(tb) if kb == "int" else tb
        return simp(Sym(norm_muldiv(z3.simplify(ra / rb)), "float"))
    if op == "**":
        return _sym_pow(a, b)
    if ka == "int" and kb == "int":
        if op == "+":
            return simp(Sym(ta + tb, "int"))
        if op == "-":
            return simp(Sym(ta - tb, "int"))
        if op == "*":
            return simp(Sym(ta * tb, "int"))
        if op == "//":
            return simp(Sym(_py_floor_div_int(ta, tb), "int"))
        if op == "%":
            q = _py_floor_div_int(ta, tb)
            return simp(Sym(ta - tb * q, "int"))
    ra = z3.ToReal(ta) if ka == "int" else ta
    rb = z3.ToReal(tb) if kb == "int" else tb
    if op == "+":
        return simp(Sym(ra + rb, "float"))
    if op == "-":
        return simp(Sym(ra - rb, "float"))
    if op == "*":
        return simp(Sym(norm_muldiv(z3.simplify(ra * rb)), "float"))
    if op == "//":
        return simp(Sym(z3.ToReal(z3.ToInt(ra / rb)), "float"))
    if op == "%":
        return simp(Sym(ra - rb * z3.ToReal(z3.ToInt(ra / rb)), "float"))
    raise Unsupported(f"binary operator {op}")


def _concrete_binop(op, a, b):
    if isinstance(a, bool):
        a = int(a)
    if isinstance(b, bool):
        b = int(b)
    if not (is_concrete_number(a) and is_concrete_number(b)):
        raise PyRaise("TypeError", f"unsupported operand types for {op}: {a!r} {b!r}")
    if op == "+":
        return a + b
    if op == "-":
        return a - b
    if op == "*":
        return a * b
    if op == "/":
        if b == 0:
            if NP_FLOATS[0]:
                return NAN
            raise PyRaise("ZeroDivisionError", "division by zero")
        return Fraction(a) / Fraction(b)
    if op == "//":
        if b == 0:
            raise PyRaise("ZeroDivisionError", "division by zero")
        r = math.floor(Fraction(a) / Fraction(b))
        return r if isinstance(a, int) and isinstance(b, int) else Fraction(r)
    if op == "%":
        if b == 0:
            raise PyRaise("ZeroDivisionError", "modulo by zero")
        q = math.floor(Fraction(a) / Fraction(b))
        return a - b * q
    if op == "**":
        if isinstance(b, int) or (isinstance(b, Fraction) and b.denominator == 1):
            e = int(b)
            isfloat = isinstance(a, Fraction) or isinstance(b, Fraction) or e < 0
            if e < 0 and a == 0:
                raise PyRaise("ZeroDivisionError", "0 to a negative power")
            r = Fraction(a) ** e
            return Fraction(r) if isfloat else int(r)
        return _sym_pow(a, b)
    raise Unsupported(f"binary operator {op}")


def _sym_pow(a, b):
    # integer literal exponent: expand; otherwise the uninterpreted pow with axioms added by ctx
    if isinstance(b, int) and not isinstance(b, bool) and 0 <= b <= 6:
        out = 1
        for _ in range(b):
            out = scalar_binop("*", out, a)
        return out
    if isinstance(b, Fraction) and b.denominator == 1 and 0 <= b <= 6:
        out = Fraction(1)
        for _ in range(int(b)):
            out = scalar_binop("*", out, a)
        return out
    ra, rb = as_real(a), as_real(b)
    t = _POW(ra, rb)
    POW_TERMS.append((ra, rb, t))
    return Sym(t, "float")


NP_FLOATS = [False]
POW_TERMS = []  # (base, exponent, term): the interpreter turns these into axiom instances


def pow_axioms(ra, rb, t):
    """Instances of the trusted axioms about real powers (DESIGN 2.2)."""
    return [
        z3.Implies(rb == 1, t == ra),
        z3.Implies(rb == 0, t == 1),
        z3.Implies(ra >= 0, t >= 0),
        z3.Implies(ra == 1, t == 1),
        z3.Implies(z3.And(ra == 0, rb > 0), t == 0),
        # 0 <= x <= 1 and 0 < e <= 1  ->  x <= x^e <= 1
        z3.Implies(z3.And(ra >= 0, ra <= 1, rb > 0, rb <= 1), z3.And(ra <= t, t <= 1)),
        # 0 <= x <= 1 and e >= 1 -> x^e <= x
        z3.Implies(z3.And(ra >= 0, ra <= 1, rb >= 1), t <= ra),
        # x >= 1 and e >= 0 -> x^e >= 1 ; x >= 1, 0 <= e <= 1 -> x^e <= x
        z3.Implies(z3.And(ra >= 1, rb >= 0), t >= 1),
        z3.Implies(z3.And(ra >= 1, rb >= 0, rb <= 1), t <= ra),
    ]


def _lp_binop(op, a, b):
    def tt(v):
        if isinstance(v, LpVar):
            return v.term
        if isinstance(v, LpExpr):
            return v.t
        return as_real(v)

    if op == "*" and is_lp(a) and is_lp(b):
        raise Unsupported("product of two LP expressions (non-affine)")
    if op == "/" and is_lp(b):
        raise Unsupported("division by an LP expression")
    ta, tb = tt(a), tt(b)
    if op == "+":
        return LpExpr(ta + tb)
    if op == "-":
        return LpExpr(ta - tb)
    if op == "*":
        return LpExpr(ta * tb)
    if op == "/":
        return LpExpr(ta / tb)
    raise Unsupported(f"LP operator {op}")


def _str_binop(op, a, b):
    if op == "+":
        if isinstance(a, str) and isinstance(b, str):
            return a + b
        ta, ka = term_of(a)
        tb, kb = term_of(b)
        if ka != "str" or kb != "str":
            raise PyRaise("TypeError", "can only concatenate str to str")
        return simp(Sym(z3.Concat(ta, tb), "str"))
    if op == "*" and isinstance(a, str) and isinstance(b, int):
        return a * b
    if op == "%" and isinstance(a, str):
        return a  # old-style formatting only occurs in messages
    raise Unsupported(f"string operator {op}")


def scalar_neg(a):
    if is_lp(a):
        return _lp_binop("-", Fraction(0), a)
    if isinstance(a, Sym):
        t, k = as_arith(a)
        return simp(Sym(-t, k))
    if isinstance(a, bool):
        return -int(a)
    if isinstance(a, FloatSpecial):
        return a
    return -a


def scalar_abs(a):
    if isinstance(a, Sym):
        t, k = as_arith(a)
        return simp(Sym(z3.If(t >= 0, t, -t), k))
    return abs(a)


def scalar_compare(op, a, b):
    """op in == != < <= > >=.  Returns bool, Sym(bool) or LpConstraint."""
    if is_lp(a) or is_lp(b):
        def tt(v):
            return v.term if isinstance(v, LpVar) else (v.t if isinstance(v, LpExpr) else as_real(v))
        ta, tb = tt(a), tt(b)
        if op == "==":
            return LpConstraint(ta == tb, "==", ta, tb)
        if op == "<=":
            return LpConstraint(ta <= tb, "<=", ta, tb)
        if op == ">=":
            return LpConstraint(ta >= tb, ">=", ta, tb)
        raise Unsupported(f"LP comparison {op}")
    if isinstance(a, FloatSpecial) or isinstance(b, FloatSpecial):
        if a is NAN or b is NAN:
            return op == "!="
        raise Unsupported("comparison with inf")
    if not isinstance(a, Sym) and not isinstance(b, Sym):
        if a is None or b is None or isinstance(a, (str, tuple, list)) or isinstance(b, (str, tuple, list)):
            if op == "==":
                return a == b
            if op == "!=":
                return a != b
            if type(a) is type(b) and isinstance(a, (str, tuple, list)):
                return {"<": a < b, "<=": a <= b, ">": a > b, ">=": a >= b}[op]
            raise PyRaise("TypeError", f"'{op}' not supported between {a!r} and {b!r}")
        if isinstance(a, (int, Fraction)) and isinstance(b, (int, Fraction)):
            return {"==": a == b, "!=": a != b, "<": a < b, "<=": a <= b, ">": a > b, ">=": a >= b}[op]
        if op == "==":
            return a is b
        if op == "!=":
            return a is not b
        raise PyRaise("TypeError", f"'{op}' not supported between {a!r} and {b!r}")
    # symbolic
    sa = isinstance(a, str) or (isinstance(a, Sym) and a.kind == "str")
    sb = isinstance(b, str) or (isinstance(b, Sym) and b.kind == "str")
    if sa or sb:
        if not (sa and sb):
            if op == "==":
                return False
            if op == "!=":
                return True
            raise PyRaise("TypeError", "ordering str and non-str")
        ta, _ = term_of(a)
        tb, _ = term_of(b)
        if op == "==":
            return simp(Sym(ta == tb, "bool"))
        if op == "!=":
            return simp(Sym(ta != tb, "bool"))
        raise Unsupported("ordering of symbolic strings")
    if a is None or b is None:
        return op == "!="
    ka = a.kind if isinstance(a, Sym) else None
    kb = b.kind if isinstance(b, Sym) else None
    if ka == "bool" and (kb == "bool" or isinstance(b, bool)) and op in ("==", "!="):
        ta, _ = term_of(a)
        tb, _ = term_of(b)
        return simp(Sym(ta == tb if op == "==" else ta != tb, "bool"))
    if kb == "bool" and isinstance(a, bool) and op in ("==", "!="):
        ta, _ = term_of(a)
        tb, _ = term_of(b)
        return simp(Sym(ta == tb if op == "==" else ta != tb, "bool"))
    if not (is_number(a) or isinstance(a, (bool,)) or ka == "bool") or not (
        is_number(b) or isinstance(b, bool) or kb == "bool"
    ):
        if op == "==":
            return False
        if op == "!=":
            return True
        raise PyRaise("TypeError", f"'{op}' not supported between {a!r} and {b!r}")
    ta, ka = as_arith(a)
    tb, kb = as_arith(b)
    if ka != kb:
        ta = z3.ToReal(ta) if ka == "int" else ta
        tb = z3.ToReal(tb) if kb == "int" else tb
    f = {"==": ta == tb, "!=": ta != tb, "<": ta < tb, "<=": ta <= tb, ">": ta > tb, ">=": ta >= tb}[op]
    return simp(Sym(f, "bool"))


def ite(c, a, b):
    """c: bool | Sym(bool); a, b scalar values."""
    if isinstance(c, bool):
        return a if c else b
    c = simp(c)
    if isinstance(c, bool):
        return a if c else b
    if a is b:
        return a
    if not isinstance(a, Sym) and not isinstance(b, Sym) and type(a) is type(b) and not is_lp(a):
        try:
            if a == b:
                return a
        except Exception:
            pass
    if is_lp(a) or is_lp(b):
        def tt(v):
            return v.term if isinstance(v, LpVar) else (v.t if isinstance(v, LpExpr) else as_real(v))
        return LpExpr(z3.If(c.t, tt(a), tt(b)))
    if isinstance(a, FloatSpecial) or isinstance(b, FloatSpecial):
        raise Unsupported("conditional nan")
    ta, ka = term_of(a)
    tb, kb = term_of(b)
    if ka == kb:
        return simp(Sym(z3.If(c.t, ta, tb), ka))
    if {ka, kb} <= {"int", "float", "bool"}:
        ra, rb = as_real(a), as_real(b)
        return simp(Sym(z3.If(c.t, ra, rb), "float"))
    raise Unsupported(f"if-then-else over {ka}/{kb}")


def smin(a, b):
    if not isinstance(a, Sym) and not isinstance(b, Sym) and not is_lp(a) and not is_lp(b):
        return a if not (b < a) else b  # Python's min returns the first on ties
    return ite(scalar_compare("<", b, a), b, a)


def smax(a, b):
    if not isinstance(a, Sym) and not isinstance(b, Sym) and not is_lp(a) and not is_lp(b):
        return a if not (b > a) else b
    return ite(scalar_compare(">", b, a), b, a)


def s_and(a, b):
    return simp(Sym(z3.And(as_bool_term(a), as_bool_term(b)), "bool"))


def s_or(a, b):
    return simp(Sym(z3.Or(as_bool_term(a), as_bool_term(b)), "bool"))


def s_not(a):
    if isinstance(a, bool):
        return not a
    return simp(Sym(z3.Not(as_bool_term(a)), "bool"))


def to_int_trunc(v):
    if isinstance(v, bool):
        return int(v)
    if isinstance(v, int):
        return v
    if isinstance(v, Fraction):
        return int(v)  # truncation toward zero
    if isinstance(v, Sym):
        if v.kind == "int":
            return v
        if v.kind == "bool":
            return Sym(z3.If(v.t, 1, 0), "int")
        if v.kind == "float":
            return simp(Sym(z3.If(v.t >= 0, z3.ToInt(v.t), -z3.ToInt(-v.t)), "int"))
    if isinstance(v, str):
        try:
            return int(v)
        except ValueError:
            raise PyRaise("ValueError", f"invalid literal for int(): {v!r}")
    raise Unsupported(f"int() of {v!r}")


def to_float(v):
    if isinstance(v, bool):
        return Fraction(int(v))
    if isinstance(v, int):
        return Fraction(v)
    if isinstance(v, Fraction) or isinstance(v, FloatSpecial):
        return v
    if isinstance(v, Sym):
        if v.kind == "float":
            return v
        return simp(Sym(as_real(v), "float"))
    if isinstance(v, str):
        try:
            return Fraction(v)
        except ValueError:
            raise PyRaise("ValueError", f"could not convert string to float: {v!r}")
    raise Unsupported(f"float() of {v!r}")


def py_round(v, nd=None):
    """round-half-even, exact in R (Python's decimal-repr subtleties for floats are not modelled)."""
    if nd is None:
        if isinstance(v, int):
            return v
        if isinstance(v, Fraction):
            return round(v)
        t = as_real(v)
        f = z3.ToInt(t + z3.RealVal(Fraction(1, 2)))
        tie = z3.ToReal(f) == t + z3.RealVal(Fraction(1, 2))
        return simp(Sym(z3.If(z3.And(tie, f % 2 == 1), f - 1, f), "int"))
    if not isinstance(nd, int):
        raise Unsupported("round() with symbolic ndigits")
    scale = Fraction(10) ** nd
    if isinstance(v, (int, Fraction)) and not isinstance(v, bool):
        r = round(Fraction(v) * scale)
        out = Fraction(r) / scale
        return out if isinstance(v, Fraction) else int(out)
    r = py_round(scalar_binop("*", v, scale))
    return scalar_binop("/", r, scale)


# ------------------------------------------------------------------------------------------------
# arrays


def same_length(a, b):
    la, lb = a.length, b.length
    if isinstance(la, int) and isinstance(lb, int):
        return la == lb
    ta, tb = as_int_term(la), as_int_term(lb)
    if ta.eq(tb) or z3.simplify(ta == tb).eq(z3.BoolVal(True)):
        return True
    if ENTAILS[0] is not None:
        return ENTAILS[0](ta == tb)
    return False


ENTAILS = [None]  # set per path by the interpreter: formula -> bool (entailed by facts & pc)


def nonneg_len(n):
    """max(n, 0) as a length, without the max when n >= 0 is already known."""
    if isinstance(n, int):
        return max(n, 0)
    if ENTAILS[0] is not None and ENTAILS[0](as_int_term(n) >= 0):
        return n
    return smax(n, 0)


def _res_dtype(op, da, db):
    if op in ("==", "!=", "<", "<=", ">", ">="):
        return "bool"
    if op in ("and", "or"):
        return "bool"
    if op == "/":
        return "float"
    if "object" in (da, db):
        return "object"
    if "float" in (da, db):
        return "float"
    if da == "bool" and db == "bool":
        return "int" if op in ("+", "-", "*") else "bool"
    return "int"


def dtype_of_scalar(v):
    if isinstance(v, bool) or (isinstance(v, Sym) and v.kind == "bool"):
        return "bool"
    if isinstance(v, int) or (isinstance(v, Sym) and v.kind == "int"):
        return "int"
    if isinstance(v, (Fraction, FloatSpecial)) or (isinstance(v, Sym) and v.kind == "float"):
        return "float"
    if is_lp(v):
        return "object"
    return "object"


def elem_op(op, x, y):
    if op in ("+", "-", "*", "/", "//", "%", "**"):
        return scalar_binop(op, x, y)
    if op in ("==", "!=", "<", "<=", ">", ">="):
        return scalar_compare(op, x, y)
    if op == "and":
        return s_and(x, y)
    if op == "or":
        return s_or(x, y)
    raise Unsupported(f"array operator {op}")


def write_back(arr):
    """After an in-place update of `arr`: if it is a view (basic slice) of another ndarray, the update is the base's too."""
    v = getattr(arr, "view_of", None)
    if v is None:
        return
    base, lo = v
    if lo is None or not arr.concrete_len() or not base.concrete_len():
        raise Unsupported("in-place write through a numpy view with symbolic bounds")
    els = base.materialise()
    for k in range(arr.length):
        els[lo + k] = arr.get(k)
    write_back(base)


def _snap(a):
    """A lazily represented array captured by a derived (lazy) array must be the array AS IT IS NOW: numpy computes
    eagerly, so a later in-place update of the operand must not show through the result."""
    return a.copy() if isinstance(a, Arr) and a.elems is None else a


def arr_binop(op, a, b):
    """Element-wise numpy semantics; a or b may be a scalar."""
    a, b = _snap(a), _snap(b)
    if isinstance(a, Arr) and isinstance(b, Arr):
        if not same_length(a, b):
            if a.concrete_len() and a.length == 1:
                a0 = a.get(0)
                return arr_binop(op, a0, b)
            if b.concrete_len() and b.length == 1:
                return arr_binop(op, a, b.get(0))
            if a.concrete_len() and b.concrete_len():
                raise PyRaise("ValueError", f"operands could not be broadcast together {a.length} {b.length}")
            raise Unsupported(f"array lengths not syntactically equal: {a.length} vs {b.length}")
        dt = _res_dtype(op, a.dtype, b.dtype)
        if a.elems is not None and b.elems is not None:
            return Arr(a.length, elems=[elem_op(op, x, y) for x, y in zip(a.elems, b.elems)], dtype=dt)
        ln = a.length if a.concrete_len() else b.length
        if isinstance(ln, int):
            return Arr(ln, elems=[elem_op(op, a.get(k), b.get(k)) for k in range(ln)], dtype=dt)
        return Arr(ln, fn=lambda i, a=a, b=b: elem_op(op, a.get(i), b.get(i)), dtype=dt)
    if isinstance(a, Arr):
        dt = _res_dtype(op, a.dtype, dtype_of_scalar(b))
        if a.elems is not None:
            return Arr(a.length, elems=[elem_op(op, x, b) for x in a.elems], dtype=dt)
        return Arr(a.length, fn=lambda i, a=a: elem_op(op, a.get(i), b), dtype=dt)
    dt = _res_dtype(op, dtype_of_scalar(a), b.dtype)
    if b.elems is not None:
        return Arr(b.length, elems=[elem_op(op, a, y) for y in b.elems], dtype=dt)
    return Arr(b.length, fn=lambda i, b=b: elem_op(op, a, b.get(i)), dtype=dt)


def arr_map(f, a, dtype=None):
    dt = dtype or a.dtype
    if a.elems is not None:
        return Arr(a.length, elems=[f(x) for x in a.elems], dtype=dt, is_nd=True)
    a = _snap(a)
    return Arr(a.length, fn=lambda i: f(a.get(i)), dtype=dt, is_nd=True)


def cast_elem(v, dtype):
    """Value as stored into an array of `dtype` (integer arrays truncate, as numpy does)."""
    if dtype == "int":
        if isinstance(v, FloatSpecial):
            raise PyRaise("ValueError", "cannot convert float NaN to integer")
        return to_int_trunc(v)
    if dtype == "float":
        if is_lp(v):
            raise Unsupported("LP expression stored into a float array")
        return to_float(v)
    if dtype == "bool":
        if isinstance(v, bool) or (isinstance(v, Sym) and v.kind == "bool"):
            return v
        return simp(Sym(as_bool_term(v), "bool"))
    return v
