"""Minimal models of the pandas / geopandas objects the country loop touches.

TableVal: a DataFrame as a sequence of row dictionaries (concrete or symbolic length): `table[col]`, comparisons
and `.isin` on columns, `~mask`, `table[mask]`, `pd.concat`, `.iterrows()`, `len`.  MapVal: the geopandas world
map - contents unknown: every lookup yields another MapVal and its length is an arbitrary non-negative integer
(the country may or may not have a polygon); writes are dropped (plotting data)."""
import ast
import z3
from .values import Sym, Arr, Native, Unsupported, OpenDict
from . import ops


class MapVal:
    def __init__(self, what="world map"):
        self.what = what


class TableVal:
    def __init__(self, rows):
        self.rows = rows  # list of (index, OpenDict) or Arr of such tuples (symbolic length)

    def concrete(self):
        return isinstance(self.rows, list)


class ColumnVal:
    def __init__(self, table, col):
        self.table, self.col = table, col


class FrameVal:
    """pd.DataFrame(dict of columns): only kept so that what is written by to_csv can be inspected."""
    def __init__(self, data):
        self.data = data


class MaskVal:
    def __init__(self, table, pred):
        self.table, self.pred = table, pred  # pred(row dict) -> bool | Sym


def install(I):
    def table_attr(obj, name):
        N = lambda f: Native(f"pandas.{name}", f)
        if isinstance(obj, MapVal):
            if name in ("index", "loc", "iloc", "name", "iso_a3", "geometry"):
                return MapVal(obj.what + "." + name)
            return Native("map." + name, lambda ctx, *a, **k: MapVal(obj.what + "." + name + "()"))
        if isinstance(obj, TableVal):
            if name == "iterrows":
                return N(lambda ctx: obj.rows)
            if name in ("copy", "reset_index", "dropna"):
                return N(lambda ctx, *a, **k: obj)
            return ColumnVal(obj, name)
        if isinstance(obj, FrameVal):
            if name == "to_csv":
                def to_csv(ctx, path=None, *a, **k):
                    I.csv_written.append((path, obj.data))
                return N(to_csv)
        if isinstance(obj, ColumnVal):
            if name == "isin":
                def isin(ctx, values):
                    return MaskVal(obj.table, lambda row: I.contains(values, I.get_item(row, obj.col)))
                return N(isin)
            if name == "values":
                return obj
        return None

    prev = getattr(I, "extra_attr", None)

    def extra_attr(obj, name):
        r = table_attr(obj, name)
        if r is not None:
            return r
        return prev(obj, name) if prev else None

    I.extra_attr = extra_attr

    def concat(ctx, tables, **kw):
        rows = []
        for t in I.iterate(tables):
            if not isinstance(t, TableVal) or not t.concrete():
                raise Unsupported("pd.concat of a symbolic-length table")
            rows.extend(t.rows)
        return TableVal(rows)

    I.native_modules["pandas"].ns["concat"] = Native("pandas.concat", concat)
    I.native_modules["geopandas"] = __import__("pyvc.values", fromlist=["NativeModule"]).NativeModule("geopandas", {
        "read_file": Native("geopandas.read_file", lambda ctx, *a, **k: MapVal()),
        "datasets": __import__("pyvc.values", fromlist=["NativeModule"]).NativeModule("geopandas.datasets", {
            "get_path": Native("geopandas.datasets.get_path", lambda ctx, *a: "naturalearth")}),
    })
    I.dropped_modules.discard("geopandas")
    I.pd_getitem = lambda obj, key: getitem(I, obj, key)
    I.pd_compare = lambda op, a, b: compare(I, op, a, b)
    I.pd_types = (MapVal, TableVal, ColumnVal, MaskVal)
    I.csv_written = []


def getitem(I, obj, key):
    if isinstance(obj, MapVal):
        return MapVal(obj.what + "[...]")
    if isinstance(obj, TableVal):
        if isinstance(key, str):
            return ColumnVal(obj, key)
        if isinstance(key, MaskVal):
            if not obj.concrete():
                raise Unsupported("row selection on a symbolic-length table")
            rows = []
            for (i, row) in obj.rows:
                if I.ctx.branch(I.truth(key.pred(row))):
                    rows.append((i, row))
            return TableVal(rows)
    raise Unsupported(f"pandas subscript {type(obj).__name__}[{type(key).__name__}]")


def compare(I, sop, a, b):
    if isinstance(a, MapVal) or isinstance(b, MapVal):
        return MapVal("comparison")
    if isinstance(a, ColumnVal) and sop in ("==", "!="):
        op = ast.Eq() if sop == "==" else ast.NotEq()
        return MaskVal(a.table, lambda row: I.compare(op, I.get_item(row, a.col), b))
    raise Unsupported("pandas comparison")
