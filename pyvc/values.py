"""Value domain of the pyvc symbolic interpreter.

Concrete values stay Python values (int, bool, str, None, tuple, list, dict); a concrete
Python float is an exact `Fraction` (machine arithmetic is treated as mathematical, DESIGN 2.2).
Symbolic scalars are `Sym` (a z3 term plus a Python-level kind).
"""
from fractions import Fraction
import z3


class Unsupported(Exception):
    """The source uses something outside the modelled subset: the function is out of reach."""


class EngineError(Exception):
    """A contract or the engine itself is wrong (never a verdict about /repo)."""


class Sym:
    __slots__ = ("t", "kind")

    def __init__(self, t, kind):
        self.t = t
        self.kind = kind  # 'int' | 'float' | 'bool' | 'str'

    def __repr__(self):
        return f"Sym<{self.kind}:{self.t}>"

    # Symbolic values must never be used in native Python control flow by accident.
    def __bool__(self):
        raise EngineError(f"symbolic value used as a native Python bool: {self!r}")

    def __hash__(self):
        return hash((self.t.get_id(), self.kind))

    def __eq__(self, other):  # identity-ish equality; ops.compare is the semantic one
        return isinstance(other, Sym) and self.kind == other.kind and self.t.eq(other.t)


class FloatSpecial:
    """nan / inf / -inf as opaque tokens (only stored and tested with isnan)."""

    def __init__(self, name):
        self.name = name

    def __repr__(self):
        return self.name


NAN = FloatSpecial("nan")
INF = FloatSpecial("inf")


class Opaque:
    """A value the engine does not model; any real use of it raises Unsupported."""

    def __init__(self, what):
        self.what = what

    def __repr__(self):
        return f"Opaque({self.what})"


class MaskSel:
    """`base[mask]` with a boolean mask whose entries are not all known: the selected elements in order.  Only what
    does not depend on WHERE the selected elements end up is supported (sum, number of elements); any other use is
    Unsupported (the value has a type no other model accepts)."""

    def __init__(self, base, mask):
        self.base = base
        self.mask = mask


class Arr:
    """1-D numpy array or (symbolic-length) Python list.

    length: Python int or Sym(int).  Storage is `elems` (list) when the length is concrete and the
    array was built element by element, otherwise `fn`: index (int | z3 Int term) -> value.
    dtype: 'float' | 'int' | 'bool' | 'object'.  is_nd: numpy ndarray (True) or Python list (False).
    """

    def __init__(self, length, elems=None, fn=None, dtype="float", is_nd=True):
        self.length = length
        self.elems = elems
        self.fn = fn
        self.dtype = dtype
        self.is_nd = is_nd
        assert (elems is None) != (fn is None)
        if elems is not None:
            assert isinstance(length, int) and len(elems) == length

    def concrete_len(self):
        return isinstance(self.length, int)

    def get(self, i):
        """i: Python int (already normalised, in range) or z3 Int term."""
        if self.elems is not None:
            if isinstance(i, int):
                return self.elems[i]
            # symbolic index into concrete storage: If-chain
            from . import ops

            out = self.elems[-1]
            for k in range(len(self.elems) - 2, -1, -1):
                out = ops.ite(Sym(i == k, "bool"), self.elems[k], out)
            return out
        return self.fn(i)

    def materialise(self):
        if self.elems is None:
            if not isinstance(self.length, int):
                raise EngineError("cannot materialise a symbolic-length array")
            self.elems = [self.fn(k) for k in range(self.length)]
            self.fn = None
        return self.elems

    def copy(self):
        if self.elems is not None:
            return Arr(self.length, elems=list(self.elems), dtype=self.dtype, is_nd=self.is_nd)
        return Arr(self.length, fn=self.fn, dtype=self.dtype, is_nd=self.is_nd)

    def __repr__(self):
        k = "nd" if self.is_nd else "list"
        if self.elems is not None:
            return f"Arr<{k},{self.dtype}>{self.elems!r}"
        return f"Arr<{k},{self.dtype},len={self.length}>"


class Arr2:
    """2-D numpy array with concrete shape, stored as list of rows (lists)."""

    def __init__(self, rows, dtype="float"):
        self.rows = rows
        self.dtype = dtype


class ClassVal:
    def __init__(self, name, bases, ns, module):
        self.name = name
        self.bases = bases
        self.ns = ns
        self.module = module
        self.mro = self._mro()

    def _mro(self):
        out = [self]
        for b in self.bases:
            if isinstance(b, ClassVal):
                for c in b.mro:
                    if c not in out:
                        out.append(c)
        return out

    def lookup(self, name):
        for c in self.mro:
            if name in c.ns:
                return c.ns[name], c
        return None, None

    def __repr__(self):
        return f"<class {self.name}>"


class Obj:
    def __init__(self, cls, attrs=None):
        self.cls = cls
        self.attrs = attrs if attrs is not None else {}

    def __repr__(self):
        return f"<{self.cls.name} obj {list(self.attrs)[:6]}>"


class FuncVal:
    def __init__(self, node, env, module, name, owner=None, kind="function"):
        self.node = node
        self.env = env  # defining Env (closure)
        self.module = module
        self.name = name
        self.owner = owner  # ClassVal when defined in a class body
        self.kind = kind  # function | staticmethod | classmethod | property
        self.defaults = None  # evaluated at definition time
        self.kw_defaults = None

    def __repr__(self):
        return f"<function {self.name}>"


class BoundMethod:
    def __init__(self, func, selfv):
        self.func = func
        self.selfv = selfv

    def __repr__(self):
        return f"<bound {self.func!r} of {self.selfv!r}>"


class Native:
    """A modelled builtin / library function: fn(ctx, *args, **kwargs)."""

    def __init__(self, name, fn, type_tag=None):
        self.name = name
        self.fn = fn
        self.type_tag = type_tag  # for builtin types usable in isinstance

    def __repr__(self):
        return f"<native {self.name}>"


class NativeModule:
    def __init__(self, name, ns, dropped=False):
        self.name = name
        self.ns = ns
        self.dropped = dropped  # plotting / printing modules: every call is a dropped no-op

    def __repr__(self):
        return f"<module-model {self.name}>"


class ModuleVal:
    def __init__(self, name, path):
        self.name = name
        self.path = path
        self.ns = {}

    def __repr__(self):
        return f"<module {self.name}>"


class OpenDict:
    """A dictionary some of whose entries are unknown: explicit entries plus a symbolic base.

    Reading a key that was never written yields `base(key)` (a stable symbol per key), which makes
    frame conditions ('no other key changed') checkable by construction (DESIGN 2.2).
    """

    def __init__(self, name, entries=None, default=None, closed=False):
        self.name = name
        self.entries = dict(entries or {})
        self.default = default  # callable key -> value for unwritten keys
        self.closed = closed
        self.written = set()
        self.read = set()
        self.deleted = set()

    def __repr__(self):
        return f"OpenDict({self.name},{list(self.entries)[:8]})"


class LpVar:
    """pulp.LpVariable: a real unknown with its bounds recorded as side facts."""

    def __init__(self, name, term):
        self.name = name
        self.term = term


class LpExpr:
    """Affine expression over LP variables (a z3 real term)."""

    def __init__(self, t):
        self.t = t

    def __repr__(self):
        return f"LpExpr({self.t})"


class LpConstraint:
    def __init__(self, formula, sense, lhs, rhs):
        self.formula = formula
        self.sense = sense
        self.lhs = lhs
        self.rhs = rhs

    def __repr__(self):
        return f"LpConstraint({self.formula})"


def is_number(v):
    return (isinstance(v, (int, Fraction)) and not isinstance(v, bool)) or (
        isinstance(v, Sym) and v.kind in ("int", "float")
    )


def is_concrete_number(v):
    return isinstance(v, (int, Fraction)) and not isinstance(v, bool)


def frac(x):
    """Exact rational of a Python float literal's decimal spelling."""
    if isinstance(x, float):
        if x != x:
            return NAN
        if x in (float("inf"), float("-inf")):
            return INF
        return Fraction(repr(x))
    return x


class NpInt(int):
    """A numpy integer scalar (np.int64, e.g. the result of np.argmax): an integer for arithmetic and indexing, but
    NOT an instance of Python's int (isinstance(x, int) is False natively)."""

    def __repr__(self):
        return f"np.int64({int(self)})"
