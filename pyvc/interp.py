"""pyvc symbolic interpreter: executes the *real* source of $REPO (re-read and re-parsed on every
run) over the value domain of values.py, forking on symbolic branches by deterministic re-execution.
"""
import ast
import hashlib
import os
from fractions import Fraction
import z3

from .values import (
    Sym, Arr, Arr2, ClassVal, Obj, FuncVal, BoundMethod, Native, NativeModule, ModuleVal, OpenDict,
    LpVar, LpExpr, LpConstraint, Unsupported, EngineError, NAN, INF, FloatSpecial, Opaque,
    is_number, is_concrete_number, frac,
)
from . import ops
from .ops import PyRaise, simp


# ------------------------------------------------------------------------------------------------
# control-flow signals


class ReturnSig(Exception):
    def __init__(self, value):
        self.value = value


class BreakSig(Exception):
    pass


class ContinueSig(Exception):
    pass


class NoForkAbort(Exception):
    """A lazily evaluated instance needed a decision the facts do not determine: skip the instance."""


class Infeasible(Exception):
    """The current path condition became unsatisfiable: abandon the path silently."""


class ExcVal:
    """An exception object of the interpreted program."""

    def __init__(self, cls_name, args=(), cls=None):
        self.cls_name = cls_name
        self.args = args
        self.cls = cls  # ClassVal for user-defined exceptions

    def __repr__(self):
        return f"{self.cls_name}{self.args!r}"


class PyExc(Exception):
    def __init__(self, exc):
        self.exc = exc
        super().__init__(repr(exc))


EXC_PARENTS = {
    "AssertionError": "Exception", "ValueError": "Exception", "KeyError": "LookupError",
    "IndexError": "LookupError", "LookupError": "Exception", "TypeError": "Exception",
    "ZeroDivisionError": "ArithmeticError", "ArithmeticError": "Exception",
    "AttributeError": "Exception", "RuntimeError": "Exception", "NotImplementedError": "RuntimeError",
    "StopIteration": "Exception", "FileNotFoundError": "OSError", "OSError": "Exception",
    "Exception": "BaseException", "SystemExit": "BaseException", "KeyboardInterrupt": "BaseException",
    "NameError": "Exception", "UnboundLocalError": "NameError", "ImportError": "Exception",
    "ModuleNotFoundError": "ImportError", "OverflowError": "ArithmeticError",
}


def exc_isinstance(name, target):
    while name is not None:
        if name == target:
            return True
        name = EXC_PARENTS.get(name)
    return False


# ------------------------------------------------------------------------------------------------


class Env:
    __slots__ = ("vars", "parent", "module", "globals_decl", "nonlocal_decl", "func", "cls_ns")

    def __init__(self, parent, module, func=None):
        self.vars = {}
        self.parent = parent  # enclosing function Env or None
        self.module = module  # ModuleVal
        self.globals_decl = set()
        self.nonlocal_decl = set()
        self.func = func
        self.cls_ns = None

    def lookup(self, name, interp):
        e = self
        while e is not None:
            if name in e.vars:
                return e.vars[name]
            e = e.parent
        if name in self.module.ns:
            return self.module.ns[name]
        if name in interp.builtins:
            return interp.builtins[name]
        raise PyExc(ExcVal("NameError", (f"name '{name}' is not defined",)))

    def assign(self, name, value):
        if name in self.globals_decl:
            self.module.ns[name] = value
            return
        if name in self.nonlocal_decl:
            e = self.parent
            while e is not None:
                if name in e.vars:
                    e.vars[name] = value
                    return
                e = e.parent
            raise EngineError(f"nonlocal {name} not found")
        self.vars[name] = value


class Path:
    def __init__(self):
        self.pc = []
        self.facts = []
        self.outcome = None  # ('return', value) | ('raise', ExcVal)
        self.decisions = None
        self.data = {}


class Ctx:
    """State of one path execution."""

    def __init__(self, interp, decisions, base_facts=()):
        self.interp = interp
        self.decisions = list(decisions)
        self.pos = 0
        self.pc = []  # z3 Bools: branch decisions taken
        self.facts = list(base_facts)  # z3 Bools: side facts (definitions of fresh symbols, requires)
        self.pending = []
        self.counter = 0
        self.dropped = set()
        self.index_terms = []  # z3 Int terms used to index symbolic series
        self.quantified = []  # (length, body) universally quantified facts (instantiated lazily)
        self.call_depth = 0
        self.notes = []
        self.lp_vars = []
        self.assert_sites = []
        self.steps = 0
        self.forks = 0
        self.nofork = False
        self.merge_mode = 0
        self.guards = []
        self.loop_capture = []
        self._index_ids = set()
        self.call_stack = []
        self.sums = []  # (prefix-sum function, series, length term)
        self.obligations = []  # (name, hyps snapshot, goal) recorded while executing (loop invariants, call sites)

    def check(self, name, goal):
        """Record a proof obligation at the current program point: facts & pc |- goal."""
        from .loops import as_formula

        g = as_formula(getattr(goal, "v", goal))
        self.obligations.append((name, list(self.facts), list(self.pc), g))

    def fresh(self, base, kind):
        self.counter += 1
        name = f"{base}!{self.counter}"
        if kind == "int":
            return Sym(z3.Int(name), "int")
        if kind == "float":
            return Sym(z3.Real(name), "float")
        if kind == "bool":
            return Sym(z3.Bool(name), "bool")
        if kind == "str":
            return Sym(z3.String(name), "str")
        raise EngineError(kind)

    def add_index(self, t):
        if not z3.is_expr(t):
            return
        t = z3.simplify(t)
        if z3.is_int_value(t):
            return
        i = t.get_id()
        if i not in self._index_ids:
            self._index_ids.add(i)
            self.index_terms.append(t)

    def assume(self, f):
        if isinstance(f, Sym):
            f = f.t
        if isinstance(f, bool):
            if not f:
                raise Infeasible()
            return
        self.facts.append(f)

    def _solver(self):
        """Incremental solver holding facts & pc of this path (both only ever grow)."""
        s = self.__dict__.get("_s")
        if s is None:
            s = z3.Solver()
            s.set("timeout", self.interp.branch_timeout_ms)
            self._s = s
            self._nf = self._np = self._npow = self._ninst = 0
            self._entailed = set()
        fs = self.facts
        while self._nf < len(fs):
            s.add(fs[self._nf])
            self._nf += 1
        while self._np < len(self.pc):
            s.add(self.pc[self._np])
            self._np += 1
        while self._npow < len(ops.POW_TERMS):
            ra, rb, t = ops.POW_TERMS[self._npow]
            for ax in ops.pow_axioms(ra, rb, t):
                s.add(ax)
            self._npow += 1
        if self.quantified or self.sums:
            from .vc import instantiate_quantified

            inst = instantiate_quantified(self)
            while self._ninst < len(inst):
                s.add(inst[self._ninst])
                self._ninst += 1
        return s

    def feasible(self, extra):
        s = self._solver()
        s.push()
        s.add(extra)
        r = s.check()
        s.pop()
        return r != z3.unsat

    def entails(self, f):
        s = self._solver()
        fid = f.get_id()
        if fid in self._entailed:
            return True
        s.push()
        s.add(z3.Not(f))
        r = s.check()
        s.pop()
        if r == z3.unsat:
            self._entailed.add(fid)
            self._keep = self.__dict__.get("_keep", [])
            self._keep.append(f)  # keep the term alive so its id is not reused
            return True
        return False

    def branch(self, c):
        """Decide a (possibly symbolic) condition; returns a Python bool and records the decision."""
        if isinstance(c, bool):
            return c
        c = simp(c)
        if isinstance(c, bool):
            return c
        if not (isinstance(c, Sym) and c.kind == "bool"):
            raise EngineError(f"branch on non-bool {c!r}")
        t = c.t
        if self.nofork:
            # evaluation inside the solver layer (quantifier instantiation): decisions are neither
            # recorded nor forked; an undetermined condition aborts that instance
            if self.entails(t):
                return True
            if self.entails(z3.Not(t)):
                return False
            raise NoForkAbort()
        if self.pos < len(self.decisions):
            d = self.decisions[self.pos]
        else:
            if self.entails(t):
                can_t, can_f = True, False
            else:
                can_f = True
                can_t = self.feasible(t)
                if not can_t:
                    can_f = self.feasible(z3.Not(t))
            if can_t and can_f:
                self.pending.append(self.decisions + [False])
                self.forks += 1
                d = True
            elif can_t:
                d = True
            elif can_f:
                d = False
            else:
                raise Infeasible()
            self.decisions.append(d)
            if os.environ.get("PYVC_DEBUG"):
                import traceback as _tb
                print("BRANCH", t, "->", d, "both" if (can_t and can_f) else "forced")
                if os.environ.get("PYVC_DEBUG") == "2":
                    _tb.print_stack(limit=14)
        self.pos += 1
        self.pc.append(t if d else z3.Not(t))
        return d


# ------------------------------------------------------------------------------------------------


def _const_false_flags(fn_node):
    """Names assigned exactly once in the function, to the literal False (plot/print flags)."""
    counts = {}
    vals = {}
    for n in ast.walk(fn_node):
        if isinstance(n, ast.Assign):
            for tg in n.targets:
                if isinstance(tg, ast.Name):
                    counts[tg.id] = counts.get(tg.id, 0) + 1
                    vals[tg.id] = n.value
                elif isinstance(tg, (ast.Tuple, ast.List)):
                    for e in ast.walk(tg):
                        if isinstance(e, ast.Name):
                            counts[e.id] = counts.get(e.id, 0) + 2
        elif isinstance(n, (ast.AugAssign, ast.AnnAssign)) and isinstance(n.target, ast.Name):
            counts[n.target.id] = counts.get(n.target.id, 0) + 2
        elif isinstance(n, (ast.For, ast.comprehension)):
            for e in ast.walk(n.target):
                if isinstance(e, ast.Name):
                    counts[e.id] = counts.get(e.id, 0) + 2
    return {
        k for k, c in counts.items()
        if c == 1 and isinstance(vals[k], ast.Constant) and vals[k].value is False
    }


class Interp:
    def __init__(self, repo, branch_timeout_ms=3000):
        self.repo = os.path.abspath(repo)
        self.branch_timeout_ms = branch_timeout_ms
        self.ast_cache = {}  # relpath -> (tree, sha)
        self.modules = {}  # per-path module instances (reset by new_path)
        self.builtins = {}
        self.native_modules = {}
        self.summaries = {}  # (relpath, qualname) -> callable(interp, ctx, args, kwargs)
        self.loop_specs = {}  # (relpath, qualname, ordinal) -> LoopSpec
        self.dropped_modules = {"matplotlib", "matplotlib.pyplot", "src.utilities.plotter", "seaborn",
                                "geopandas", "plotly", "pptx", "matplotlib.gridspec", "matplotlib.ticker",
                                "matplotlib.patches", "matplotlib.colors", "matplotlib.cm",
                                "src.utilities.make_powerpoint"}
        self.max_steps = 4_000_000
        self._MISSING = _MISSING
        self.sources_used = {}
        from . import builtins_model, npmodel, pulpmodel, pdmodel

        builtins_model.install(self)
        npmodel.install(self)
        pulpmodel.install(self)
        pdmodel.install(self)
        self.ctx = None

    # -------------------------------------------------------------------------------- modules

    def parse(self, relpath):
        if relpath not in self.ast_cache:
            p = os.path.join(self.repo, relpath)
            with open(p, "rb") as f:
                src = f.read()
            tree = ast.parse(src, filename=relpath)
            self.ast_cache[relpath] = (tree, hashlib.sha256(src).hexdigest())
        return self.ast_cache[relpath]

    def new_path(self, ctx):
        self.csv_written = []
        self.modules = {}
        self.ctx = ctx
        del ops.POW_TERMS[:]
        ops.ENTAILS[0] = ctx.entails
        ops.NP_FLOATS[0] = False

    def module_relpath(self, modname):
        rel = modname.replace(".", "/") + ".py"
        if os.path.exists(os.path.join(self.repo, rel)):
            return rel
        rel2 = modname.replace(".", "/") + "/__init__.py"
        if os.path.exists(os.path.join(self.repo, rel2)):
            return rel2
        return None

    def import_module(self, modname):
        if modname in self.native_modules:
            return self.native_modules[modname]
        for d in self.dropped_modules:
            if modname == d or modname.startswith(d + "."):
                return NativeModule(modname, {}, dropped=True)
        if modname in self.modules:
            return self.modules[modname]
        rel = self.module_relpath(modname)
        if rel is None:
            return NativeModule(modname, {}, dropped=False)  # unknown library: opaque attributes
        mod = ModuleVal(modname, rel)
        self.modules[modname] = mod
        tree, sha = self.parse(rel)
        self.sources_used[rel] = sha
        env = Env(None, mod)
        env.vars = mod.ns  # module scope: locals are globals
        mod.ns["__name__"] = modname
        for st in tree.body:
            try:
                self.exec_stmt(st, env)
            except (Unsupported, PyExc) as e:
                # module-level statement outside the subset (git/pandas set-up): bind targets opaque
                for n in ast.walk(st):
                    if isinstance(n, ast.Name) and isinstance(n.ctx, ast.Store):
                        mod.ns.setdefault(n.id, Opaque(f"{modname}.{n.id}: {e}"))
        return mod

    def load_function(self, relpath, qualname):
        modname = relpath[:-3].replace("/", ".")
        mod = self.import_module(modname)
        cur = mod
        for part in qualname.split("."):
            if isinstance(cur, ModuleVal):
                if part not in cur.ns:
                    raise EngineError(f"{relpath}: no top-level name {part}")
                cur = cur.ns[part]
            elif isinstance(cur, ClassVal):
                v, _ = cur.lookup(part)
                if v is None:
                    raise EngineError(f"{relpath}: {cur.name} has no attribute {part}")
                cur = v
            else:
                raise EngineError(f"cannot resolve {qualname} in {relpath}")
        return cur

    # -------------------------------------------------------------------------------- statements

    def exec_block(self, stmts, env):
        for st in stmts:
            self.exec_stmt(st, env)

    def exec_stmt(self, st, env):
        self.ctx.steps += 1
        if self.ctx.steps > self.max_steps:
            raise Unsupported("step budget exhausted")
        self.ctx.cur_line = st.lineno
        m = getattr(self, "st_" + type(st).__name__, None)
        if m is None:
            raise Unsupported(f"statement {type(st).__name__} at line {st.lineno}")
        return m(st, env)

    def st_Pass(self, st, env):
        pass

    def st_Expr(self, st, env):
        if isinstance(st.value, ast.Constant):
            return
        self.eval(st.value, env)

    def st_Import(self, st, env):
        for a in st.names:
            mod = self.import_module(a.name)
            if a.asname:
                env.assign(a.asname, mod)
            else:
                top = a.name.split(".")[0]
                env.assign(top, self.import_module(top) if "." in a.name else mod)

    def st_ImportFrom(self, st, env):
        modname = st.module or ""
        mod = self.import_module(modname)
        for a in st.names:
            name = a.asname or a.name
            if isinstance(mod, NativeModule):
                if a.name in mod.ns:
                    env.assign(name, mod.ns[a.name])
                elif mod.dropped:
                    env.assign(name, NativeModule(modname + "." + a.name, {}, dropped=True))
                else:
                    sub = self.import_module(modname + "." + a.name)
                    if isinstance(sub, NativeModule) and not sub.ns and not sub.dropped:
                        env.assign(name, Opaque(f"{modname}.{a.name}"))
                    else:
                        env.assign(name, sub)
            else:
                if a.name in mod.ns:
                    env.assign(name, mod.ns[a.name])
                else:
                    sub = self.import_module(modname + "." + a.name)
                    env.assign(name, sub)

    def st_FunctionDef(self, st, env):
        fv = self.make_function(st, env)
        env.assign(st.name, fv)

    def make_function(self, st, env):
        kind = "function"
        for d in st.decorator_list:
            if isinstance(d, ast.Name) and d.id in ("staticmethod", "classmethod", "property"):
                kind = d.id
            elif isinstance(d, ast.Attribute) and d.attr in ("setter",):
                kind = "setter"
            # other decorators (e.g. pytest marks) are ignored
        fv = FuncVal(st, env if env.func is not None or env.cls_ns is not None else None, env.module, st.name,
                     kind=kind)
        if env.cls_ns is not None:
            # functions defined in a class body close over the enclosing *function* scope only
            fv.env = env.parent
        elif env.func is None:
            fv.env = None
        else:
            fv.env = env
        a = st.args
        fv.defaults = [self.eval(d, env) for d in a.defaults]
        fv.kw_defaults = [None if d is None else self.eval(d, env) for d in a.kw_defaults]
        return fv

    def st_ClassDef(self, st, env):
        bases = [self.eval(b, env) for b in st.bases]
        cenv = Env(env if env.func is not None else None, env.module)
        cenv.cls_ns = {}
        cenv.vars = cenv.cls_ns
        cenv.func = None
        for s in st.body:
            self.exec_stmt(s, cenv)
        cls = ClassVal(st.name, bases, cenv.cls_ns, env.module)
        for v in cenv.cls_ns.values():
            if isinstance(v, FuncVal) and v.owner is None:
                v.owner = cls
        env.assign(st.name, cls)

    def st_Return(self, st, env):
        raise ReturnSig(None if st.value is None else self.eval(st.value, env))

    def st_Global(self, st, env):
        env.globals_decl.update(st.names)

    def st_Nonlocal(self, st, env):
        env.nonlocal_decl.update(st.names)

    def st_Break(self, st, env):
        raise BreakSig()

    def st_Continue(self, st, env):
        raise ContinueSig()

    def st_Delete(self, st, env):
        for t in st.targets:
            if isinstance(t, ast.Name):
                env.vars.pop(t.id, None)
            elif isinstance(t, ast.Subscript):
                obj = self.eval(t.value, env)
                key = self.eval_index(t.slice, env)
                self.del_item(obj, key)
            else:
                raise Unsupported("del target")

    def st_Assign(self, st, env):
        v = self.eval(st.value, env)
        for tg in st.targets:
            self.assign_target(tg, v, env)

    def st_AnnAssign(self, st, env):
        if st.value is not None:
            self.assign_target(st.target, self.eval(st.value, env), env)

    def st_AugAssign(self, st, env):
        op = BINOPS[type(st.op)]
        tg = st.target
        if isinstance(tg, ast.Name):
            cur = env.lookup(tg.id, self)
            new = self.inplace_binop(op, cur, self.eval(st.value, env))
            env.assign(tg.id, new)
        elif isinstance(tg, ast.Attribute):
            obj = self.eval(tg.value, env)
            cur = self.get_attr(obj, tg.attr)
            new = self.inplace_binop(op, cur, self.eval(st.value, env))
            self.set_attr(obj, tg.attr, new)
        elif isinstance(tg, ast.Subscript):
            obj = self.eval(tg.value, env)
            key = self.eval_index(tg.slice, env)
            cur = self.get_item(obj, key)
            new = self.inplace_binop(op, cur, self.eval(st.value, env))
            self.set_item(obj, key, new)
        else:
            raise Unsupported("augmented assignment target")

    def inplace_binop(self, op, cur, val):
        from .pulpmodel import LpModel

        if isinstance(cur, LpModel) and op == "+":
            cur.add(val, self)
            return cur
        if isinstance(cur, list) and op == "+":
            it = self.iterate(val)
            cur.extend(it)
            return cur
        if isinstance(cur, dict) and op == "or":
            # d |= other : updates the SAME dictionary object in place (PEP 584)
            if isinstance(val, dict):
                cur.update(val)
                return cur
            raise Unsupported("dict |= non-literal mapping")
        if isinstance(cur, Arr) and cur.is_nd:
            # numpy in-place: keeps the array object and its dtype
            # the result may be lazy (symbolic length): it must read the OLD contents, not the object being updated
            res = self.binop(op, cur.copy() if not cur.concrete_len() else cur, val)
            if isinstance(res, Arr):
                if cur.dtype == "int" and res.dtype == "float":
                    if op == "/":
                        raise PyRaise("TypeError", "numpy in-place true divide on int array")
                    res = ops.arr_map(lambda x: ops.cast_elem(x, "int"), res, dtype="int")
                cur.elems, cur.fn, cur.length = res.elems, res.fn, res.length
                ops.write_back(cur)
                return cur
            return res
        return self.binop(op, cur, val)

    def assign_target(self, tg, v, env):
        if isinstance(tg, ast.Name):
            env.assign(tg.id, v)
        elif isinstance(tg, ast.Attribute):
            self.set_attr(self.eval(tg.value, env), tg.attr, v)
        elif isinstance(tg, ast.Subscript):
            obj = self.eval(tg.value, env)
            key = self.eval_index(tg.slice, env)
            self.set_item(obj, key, v)
        elif isinstance(tg, (ast.Tuple, ast.List)):
            items = self.iterate(v)
            star = [i for i, e in enumerate(tg.elts) if isinstance(e, ast.Starred)]
            if star:
                k = star[0]
                n_after = len(tg.elts) - k - 1
                if len(items) < len(tg.elts) - 1:
                    raise PyExc(ExcVal("ValueError", ("not enough values to unpack",)))
                for e, x in zip(tg.elts[:k], items[:k]):
                    self.assign_target(e, x, env)
                self.assign_target(tg.elts[k].value, list(items[k:len(items) - n_after]), env)
                for e, x in zip(tg.elts[k + 1:], items[len(items) - n_after:]):
                    self.assign_target(e, x, env)
            else:
                if len(items) != len(tg.elts):
                    raise PyExc(ExcVal("ValueError", (f"unpack: expected {len(tg.elts)} got {len(items)}",)))
                for e, x in zip(tg.elts, items):
                    self.assign_target(e, x, env)
        else:
            raise Unsupported(f"assignment target {type(tg).__name__}")

    def st_If(self, st, env):
        # prune blocks guarded by a literal-False flag assigned once in the same function
        if isinstance(st.test, ast.Name) and env.func is not None and st.test.id in env.func._false_flags:
            self.ctx.dropped.add(f"if {st.test.id}: (literal False flag)")
            self.exec_block(st.orelse, env)
            return
        c = self.truth(self.eval(st.test, env))
        if not isinstance(c, bool) and self.ctx.merge_mode and self.mergeable(st):
            c = simp(c)
            if not isinstance(c, bool):
                return self.merge_if(st, env, c)
        if self.ctx.branch(c):
            self.exec_block(st.body, env)
        else:
            self.exec_block(st.orelse, env)

    # ---- state merging of simple conditionals (inside summarised loop bodies) ----------------------

    def mergeable(self, st):
        """Both arms only assign local names, append to lists, assert, or nest further simple ifs."""
        def ok_block(stmts):
            for s in stmts:
                if isinstance(s, ast.Pass):
                    continue
                if isinstance(s, ast.Assign):
                    if all(isinstance(t, ast.Name) or (isinstance(t, (ast.Tuple, ast.List)) and all(isinstance(e, ast.Name) for e in t.elts)) for t in s.targets):
                        continue
                    return False
                if isinstance(s, ast.AugAssign) and isinstance(s.target, ast.Name):
                    continue
                if isinstance(s, ast.AnnAssign) and isinstance(s.target, ast.Name):
                    continue
                if isinstance(s, ast.Expr):
                    v = s.value
                    if isinstance(v, ast.Constant):
                        continue
                    if isinstance(v, ast.Call) and isinstance(v.func, ast.Attribute) and v.func.attr == "append":
                        continue
                    if isinstance(v, ast.Call) and isinstance(v.func, ast.Name) and v.func.id == "print":
                        continue
                    return False
                if isinstance(s, ast.Assert):
                    continue
                if isinstance(s, ast.If):
                    if ok_block(s.body) and ok_block(s.orelse):
                        continue
                    return False
                return False
            return True
        ok = ok_block(st.body) and ok_block(st.orelse)
        if ok:
            # both arms are EXECUTED when the conditional is merged: a call that may write to the heap (a setter, a
            # method of an object) would leave the effects of both arms behind - only known-pure calls may be merged
            for b in (st.body, st.orelse):
                for s_ in b:
                    for n in ast.walk(s_):
                        if isinstance(n, ast.Call) and not _merge_safe_call(n):
                            return False
        if ok and os.environ.get("PYVC_LOG_MERGE_CALLS"):
            names = sorted({ast.unparse(n.func) for b in (st.body, st.orelse) for s_ in b for n in ast.walk(s_) if isinstance(n, ast.Call)})
            if names:
                with open(os.environ["PYVC_LOG_MERGE_CALLS"], "a") as f:
                    f.write(" ".join(names) + "\n")
        return ok

    def _visible_lists(self, env):
        out = {}
        e = env
        while e is not None:
            for v in e.vars.values():
                if isinstance(v, list):
                    out[id(v)] = v
                elif isinstance(v, Obj):
                    for x in v.attrs.values():
                        if isinstance(x, list):
                            out[id(x)] = x
            e = e.parent
        return out

    def merge_if(self, st, env, c):
        """Execute both arms and merge the states with if-then-else terms; if the states cannot be merged
        (non-scalar values differ) everything the arms did is rolled back and the path forks instead."""
        ctx = self.ctx
        lists = self._visible_lists(env)
        lens = {i: len(v) for i, v in lists.items()}
        snap = dict(env.vars)
        s = ctx._solver()
        s.push()
        saved = (len(ctx.facts), len(ctx.pc), len(ctx.obligations), len(ctx.quantified), len(ctx.sums),
                 ctx._nf, ctx._np, ctx._npow, ctx._ninst, len(ops.POW_TERMS), ctx.pos, len(ctx.decisions), ctx.forks,
                 len(ctx.pending))
        try:
            self._merge_if(st, env, c, lists, lens, snap)
            # keep the solver stack balanced: re-assert what the arms added at the outer level
            s.pop()
            ctx._nf, ctx._np, ctx._npow, ctx._ninst = saved[5:9]
            return
        except Unsupported as e:
            if "cannot merge" not in str(e) and "different numbers" not in str(e):
                raise
        s.pop()
        del ctx.facts[saved[0]:], ctx.pc[saved[1]:], ctx.obligations[saved[2]:], ctx.quantified[saved[3]:], ctx.sums[saved[4]:]
        ctx._nf, ctx._np, ctx._npow, ctx._ninst = saved[5:9]
        del ops.POW_TERMS[saved[9]:]
        if ctx.pos != saved[10] or len(ctx.decisions) != saved[11]:
            del ctx.decisions[saved[11]:]
            ctx.pos = saved[10]
            ctx.forks = saved[12]
            del ctx.pending[saved[13]:]
        ctx.__dict__.pop("_inst_sig", None)
        env.vars = snap
        for i, v in lists.items():
            del v[lens[i]:]
        if ctx.branch(c):
            self.exec_block(st.body, env)
        else:
            self.exec_block(st.orelse, env)

    def _merge_if(self, st, env, c, lists, lens, snap):
        ctx = self.ctx
        results = []
        for guard, block in ((c, st.body), (ops.s_not(c), st.orelse)):
            env.vars = dict(snap)
            ctx.guards.append(guard)
            try:
                self.exec_block(block, env)
            finally:
                ctx.guards.pop()
            tails = {}
            for i, v in lists.items():
                if len(v) < lens[i]:
                    raise Unsupported("merged branch removed list elements")
                tails[i] = v[lens[i]:]
                del v[lens[i]:]
            results.append((env.vars, tails))
        (v1, t1), (v2, t2) = results
        merged = dict(snap)
        for name in set(v1) | set(v2):
            a = v1.get(name, _MISSING)
            b = v2.get(name, _MISSING)
            if a is b:
                merged[name] = a
                continue
            if a is _MISSING or b is _MISSING:
                merged[name] = Opaque(f"'{name}' assigned in only one arm of a merged conditional")
                continue
            merged[name] = self.merge_values(c, a, b, name)
        env.vars = merged
        for i, v in lists.items():
            a, b = t1[i], t2[i]
            if len(a) != len(b):
                raise Unsupported("arms of a merged conditional append different numbers of elements")
            v.extend(self.merge_values(c, x, y, "appended element") for x, y in zip(a, b))

    def merge_values(self, c, a, b, what):
        if a is b:
            return a
        try:
            if (is_number(a) or isinstance(a, bool) or (isinstance(a, Sym))) and (is_number(b) or isinstance(b, bool) or isinstance(b, Sym)):
                return ops.ite(c, a, b)
            if isinstance(a, str) and isinstance(b, str) and a == b:
                return a
            if isinstance(a, tuple) and isinstance(b, tuple) and len(a) == len(b):
                # (x, y) if c else (u, v): a fresh tuple either way - merged element by element
                return tuple(self.merge_values(c, x, y, what) for x, y in zip(a, b))
        except Unsupported:
            pass
        raise Unsupported(f"cannot merge {what} of a conditional: {repr(a)[:80]} / {repr(b)[:80]}")

    def st_Assert(self, st, env):
        c = self.truth(self.eval(st.test, env))
        may_raise = getattr(self.ctx, "asserts_may_raise", False)
        if self.ctx.merge_mode and may_raise and self.ctx.guards and c is not True:
            # the contract allows this function to reject its input: a failing assert is an OUTCOME (a raise path),
            # not an obligation - the enclosing conditional cannot be merged, the path forks instead
            raise Unsupported("cannot merge: assertion that may fail inside a conditional of a function allowed to raise")
        if self.ctx.merge_mode and not isinstance(c, bool) and not may_raise:
            # inside a summarised loop body an assertion cannot end the path for one index only: it becomes
            # an obligation at the arbitrary index (guards -> condition), then a fact
            g = [ops.as_bool_term(x) for x in self.ctx.guards]
            goal = z3.Implies(z3.And(g), ops.as_bool_term(c)) if g else ops.as_bool_term(c)
            fn = env.func._qualname if env.func is not None else "<module>"
            k = env.func._assert_ordinal(st) if env.func is not None else 0
            if self.ctx.entails(goal):
                return
            if not self.ctx.nofork:
                self.ctx.check(f"assert_holds[{fn}#{k}]", goal)
            self.ctx.facts.append(goal)
            return
        if self.ctx.merge_mode and c is False and self.ctx.guards and not may_raise:
            g = [ops.as_bool_term(x) for x in self.ctx.guards]
            fn = env.func._qualname if env.func is not None else "<module>"
            k = env.func._assert_ordinal(st) if env.func is not None else 0
            self.ctx.check(f"assert_holds[{fn}#{k}]", z3.Not(z3.And(g)))
            self.ctx.facts.append(z3.Not(z3.And(g)))
            return
        if self.ctx.branch(c):
            return
        msg = ()
        if st.msg is not None:
            try:
                msg = (self.eval(st.msg, env),)
            except Exception:
                msg = ("<message>",)
        e = ExcVal("AssertionError", msg)
        e.lineno = st.lineno
        raise PyExc(e)

    def st_Raise(self, st, env):
        if st.exc is None:
            cur = getattr(env, "_current_exc", None)
            e = env
            while cur is None and e is not None:
                cur = e.vars.get("__current_exc__")
                e = e.parent
            if cur is None:
                raise PyExc(ExcVal("RuntimeError", ("No active exception to reraise",)))
            raise PyExc(cur)
        v = self.eval(st.exc, env)
        if isinstance(v, Native) and v.type_tag and v.type_tag in EXC_PARENTS or (
            isinstance(v, Native) and v.type_tag in ("BaseException",)
        ):
            v = ExcVal(v.type_tag, ())
        if isinstance(v, ClassVal):
            v = self.call(v, [], {})
        if isinstance(v, Obj):
            v = ExcVal(v.cls.name, (), cls=v.cls)
        if not isinstance(v, ExcVal):
            raise Unsupported(f"raise of {v!r}")
        raise PyExc(v)

    def st_Try(self, st, env):
        try:
            try:
                self.exec_block(st.body, env)
            except PyRaise as pr:
                raise PyExc(ExcVal(pr.cls_name, (pr.msg,)))
        except PyExc as pe:
            for h in st.handlers:
                if self.handler_matches(h, pe.exc, env):
                    if h.name:
                        env.assign(h.name, pe.exc)
                    env.vars["__current_exc__"] = pe.exc
                    try:
                        self.exec_block(h.body, env)
                    finally:
                        env.vars.pop("__current_exc__", None)
                    break
            else:
                self.exec_block(st.finalbody, env)
                raise
        else:
            self.exec_block(st.orelse, env)
        self.exec_block(st.finalbody, env)

    def handler_matches(self, h, exc, env):
        if h.type is None:
            return True
        t = self.eval(h.type, env)
        ts = t if isinstance(t, (tuple, list)) else [t]
        for x in ts:
            if isinstance(x, Native) and x.type_tag and exc_isinstance(exc.cls_name, x.type_tag):
                return True
            if isinstance(x, ClassVal) and exc.cls is not None and x in exc.cls.mro:
                return True
        return False

    def st_With(self, st, env):
        # only no-op context managers occur in scope (np.errstate, warnings.catch_warnings)
        for item in st.items:
            v = self.eval(item.context_expr, env)
            if item.optional_vars is not None:
                self.assign_target(item.optional_vars, v, env)
        self.exec_block(st.body, env)

    def st_While(self, st, env):
        n = 0
        while True:
            c = self.truth(self.eval(st.test, env))
            if not self.ctx.branch(c):
                break
            try:
                self.exec_block(st.body, env)
            except BreakSig:
                return
            except ContinueSig:
                pass
            n += 1
            if n > 10000:
                raise Unsupported("while loop did not terminate within 10000 iterations")
        self.exec_block(st.orelse, env)

    def st_For(self, st, env):
        it = self.eval(st.iter, env)
        spec = None
        if env.func is not None:
            ordinal = env.func._loop_ordinal(st)
            spec = self.loop_specs.get((env.func._relpath, env.func._qualname, ordinal))
        if spec is not None:
            return spec.run(self, st, env, it)
        items = self.iterate(it, allow_symbolic=True)
        if isinstance(items, SymRange):
            from .loops import auto_summarise

            return auto_summarise(self, st, env, items)
        for x in items:
            self.assign_target(st.target, x, env)
            try:
                self.exec_block(st.body, env)
            except BreakSig:
                return
            except ContinueSig:
                continue
        self.exec_block(st.orelse, env)

    # -------------------------------------------------------------------------------- iteration

    def iterate(self, v, allow_symbolic=False):
        """-> Python list of values (concrete length) or SymRange."""
        if isinstance(v, (list, tuple)):
            return list(v)
        if isinstance(v, dict):
            return list(v.keys())
        if isinstance(v, str):
            return list(v)
        if isinstance(v, Arr):
            if v.concrete_len():
                return [v.get(k) for k in range(v.length)]
            if allow_symbolic:
                return SymRange(0, v.length, 1, arr=v)
            raise Unsupported("iteration over a symbolic-length series")
        if isinstance(v, RangeVal):
            if all(isinstance(x, int) for x in (v.start, v.stop, v.step)):
                return list(range(v.start, v.stop, v.step))
            if allow_symbolic:
                return SymRange(v.start, v.stop, v.step)
            raise Unsupported("iteration over a symbolic range")
        if isinstance(v, OpenDict):
            if v.closed or v.default is None:
                return list(v.entries.keys())
            raise Unsupported(f"iteration over open dictionary {v.name}")
        if isinstance(v, GenVal):
            return self.iterate(v.items, allow_symbolic) if not isinstance(v.items, list) else v.items
        if isinstance(v, Arr2):
            return [Arr(len(r), elems=list(r), dtype=v.dtype) for r in v.rows]
        if isinstance(v, (set, frozenset)):
            return sorted(v, key=repr)
        raise Unsupported(f"iteration over {type(v).__name__}: {v!r}")

    # -------------------------------------------------------------------------------- expressions

    def eval(self, e, env):
        m = getattr(self, "ex_" + type(e).__name__, None)
        if m is None:
            raise Unsupported(f"expression {type(e).__name__} at line {getattr(e, 'lineno', '?')}")
        try:
            return m(e, env)
        except PyRaise as pr:
            raise PyExc(ExcVal(pr.cls_name, (pr.msg,)))

    def ex_Constant(self, e, env):
        v = e.value
        if isinstance(v, float):
            # exact rational of the literal as written in the source
            return frac(v)
        if isinstance(v, (int, str, bool)) or v is None:
            return v
        if v is Ellipsis:
            return v
        if isinstance(v, bytes):
            return v
        raise Unsupported(f"constant {v!r}")

    def ex_Name(self, e, env):
        return env.lookup(e.id, self)

    def ex_Tuple(self, e, env):
        return tuple(self.eval_elts(e.elts, env))

    def ex_List(self, e, env):
        return list(self.eval_elts(e.elts, env))

    def ex_Set(self, e, env):
        return set(self.eval_elts(e.elts, env))

    def eval_elts(self, elts, env):
        out = []
        for x in elts:
            if isinstance(x, ast.Starred):
                out.extend(self.iterate(self.eval(x.value, env)))
            else:
                out.append(self.eval(x, env))
        return out

    def ex_Dict(self, e, env):
        d = {}
        for k, v in zip(e.keys, e.values):
            if k is None:
                src = self.eval(v, env)
                if isinstance(src, dict):
                    d.update(src)
                elif isinstance(src, OpenDict):
                    d.update(src.entries)
                else:
                    raise Unsupported("** of non-dict")
            else:
                d[self.hashable(self.eval(k, env))] = self.eval(v, env)
        return d

    def dict_find(self, d, key):
        """Stored key of `d` equal to `key` (value equality, forking on symbolic components), or _MISSING."""
        key = self.hashable(key)
        if not _has_sym(key) and not any(_has_sym(k) for k in d):
            return key if key in d else _MISSING
        for k in list(d.keys()):
            if k is key:
                return k
            if type(k) is not type(key) and not (isinstance(k, (int, Fraction, Sym)) and isinstance(key, (int, Fraction, Sym))):
                continue
            eq = self.truth(self.compare(ast.Eq(), k, key))
            if eq is True:
                return k
            if eq is False:
                continue
            if self.ctx.branch(eq):
                return k
        return _MISSING

    def hashable(self, k):
        k = simp(k) if isinstance(k, Sym) else k
        if isinstance(k, Sym):
            raise Unsupported(f"symbolic dictionary key {k!r}")
        if isinstance(k, list):
            raise PyRaise("TypeError", "unhashable type: list")
        return k

    def ex_JoinedStr(self, e, env):
        parts = []
        for v in e.values:
            if isinstance(v, ast.Constant):
                parts.append(v.value)
            else:
                try:
                    x = self.eval(v.value, env)
                except (Unsupported, PyExc):
                    x = "<?>"
                parts.append(self.to_str(x, v.format_spec))
        if any(isinstance(p, Sym) for p in parts):
            out = parts[0]
            for p in parts[1:]:
                out = ops.scalar_binop("+", out, p)
            return out
        return "".join(parts)

    def to_str(self, x, spec=None):
        if isinstance(x, str):
            return x
        if isinstance(x, Sym):
            if x.kind == "str":
                return x
            if x.kind == "int":
                return SymStrOfInt.make(x)
            return "<sym>"
        if isinstance(x, bool) or x is None:
            return str(x)
        if isinstance(x, int):
            return str(x)
        if isinstance(x, Fraction):
            return repr(float(x))
        if isinstance(x, self.PathVal):
            return x.s
        return f"<{type(x).__name__}>"

    def ex_FormattedValue(self, e, env):
        return self.to_str(self.eval(e.value, env))

    def ex_Lambda(self, e, env):
        fn = ast.FunctionDef(
            name="<lambda>", args=e.args, body=[ast.Return(value=e.body, lineno=e.lineno, col_offset=0)],
            decorator_list=[], lineno=e.lineno, col_offset=0,
        )
        fv = FuncVal(fn, env, env.module, "<lambda>")
        fv.defaults = [self.eval(d, env) for d in e.args.defaults]
        fv.kw_defaults = [None if d is None else self.eval(d, env) for d in e.args.kw_defaults]
        return fv

    def ex_IfExp(self, e, env):
        c = self.truth(self.eval(e.test, env))
        if isinstance(c, bool):
            return self.eval(e.body if c else e.orelse, env)
        if self.ctx.merge_mode and _is_pure(e.body) and _is_pure(e.orelse):
            a, b = self.eval(e.body, env), self.eval(e.orelse, env)
            try:
                return self.merge_values(c, a, b, "conditional expression")
            except Unsupported:
                pass
        if self.ctx.branch(c):
            return self.eval(e.body, env)
        return self.eval(e.orelse, env)

    def ex_BoolOp(self, e, env):
        is_and = isinstance(e.op, ast.And)
        result = None
        sym_acc = None  # accumulated symbolic condition
        for i, sub in enumerate(e.values):
            v = self.eval(sub, env)
            last = i == len(e.values) - 1
            t = self.truth(v)
            if isinstance(t, bool):
                if is_and and not t:
                    return v if sym_acc is None else False
                if (not is_and) and t:
                    return v if sym_acc is None else True
                result = v
                continue
            # symbolic operand: the remaining operands are evaluated eagerly only if they are pure
            if last and sym_acc is None and i > 0:
                return v if not isinstance(v, Sym) or v.kind == "bool" else t
            if all(_is_pure(x) for x in e.values[i + 1:]):
                sym_acc = t if sym_acc is None else (ops.s_and(sym_acc, t) if is_and else ops.s_or(sym_acc, t))
                result = None
                continue
            # impure tail: fork on this operand
            d = self.ctx.branch(t)
            if is_and and not d:
                return False
            if (not is_and) and d:
                return True
        if sym_acc is not None:
            return sym_acc
        return result

    def ex_UnaryOp(self, e, env):
        v = self.eval(e.operand, env)
        if isinstance(e.op, ast.Not):
            return ops.s_not(self.truth(v))
        if isinstance(e.op, ast.USub):
            return self.unary_neg(v)
        if isinstance(e.op, ast.UAdd):
            return v
        if isinstance(e.op, ast.Invert):
            if type(v).__name__ == "MaskVal":
                return type(v)(v.table, lambda row, v=v: ops.s_not(self.truth(v.pred(row))))
            if isinstance(v, Arr) and v.dtype == "bool":
                return ops.arr_map(ops.s_not, v, dtype="bool")
            if isinstance(v, int):
                return ~v
        raise Unsupported(f"unary {type(e.op).__name__}")

    def unary_neg(self, v):
        if isinstance(v, Arr):
            return ops.arr_map(ops.scalar_neg, v)
        if isinstance(v, Obj):
            return self.call_method(v, "__neg__", [])
        return ops.scalar_neg(v)

    def ex_BinOp(self, e, env):
        a = self.eval(e.left, env)
        b = self.eval(e.right, env)
        return self.binop(BINOPS[type(e.op)], a, b)

    def binop(self, op, a, b):
        if op == "/" and (isinstance(a, self.PathVal) or isinstance(b, self.PathVal)):
            return self.PathVal(f"{getattr(a, 's', a)}/{getattr(b, 's', b)}")
        if isinstance(a, Obj):
            name = DUNDER[op]
            f, _ = a.cls.lookup(name)
            if f is not None:
                return self.call_method(a, name, [b])
            if isinstance(b, Obj):
                rf, _ = b.cls.lookup(RDUNDER[op])
                if rf is not None:
                    return self.call_method(b, RDUNDER[op], [a])
            raise PyRaise("TypeError", f"unsupported operand {op} for {a!r}")
        if isinstance(b, Obj):
            rf, _ = b.cls.lookup(RDUNDER[op])
            if rf is not None:
                return self.call_method(b, RDUNDER[op], [a])
            raise PyRaise("TypeError", f"unsupported operand {op} for {b!r}")
        if isinstance(a, Arr) or isinstance(b, Arr):
            return self.arr_or_list_binop(op, a, b)
        if isinstance(a, (list, tuple)) or isinstance(b, (list, tuple)):
            return self.seq_binop(op, a, b)
        if isinstance(a, (Opaque,)) or isinstance(b, Opaque):
            raise Unsupported(f"arithmetic on {a!r} / {b!r}")
        if isinstance(a, dict) and isinstance(b, dict) and op == "or":
            return {**a, **b}  # d1 | d2 : a new dictionary (PEP 584)
        if isinstance(a, (dict, OpenDict)) or isinstance(b, (dict, OpenDict)):
            raise PyRaise("TypeError", "dict in arithmetic")
        if a is None or b is None:
            raise PyRaise("TypeError", f"unsupported operand type(s) for {op}: NoneType")
        if op in ("/", "//", "%") and not ops.is_lp(b):
            self.check_div(b)
        return ops.scalar_binop(op, a, b)

    def check_div(self, b):
        """Python raises ZeroDivisionError on a zero scalar divisor: fork unless excluded."""
        if getattr(self.ctx, "np_floats", False):
            return  # numpy scalars: no exception; x/0 stays an arbitrary value (nan/inf natively)
        if isinstance(b, Sym) and b.kind in ("int", "float"):
            z = simp(Sym(b.t == 0, "bool"))
            if isinstance(z, bool):
                if z:
                    raise PyRaise("ZeroDivisionError", "division by zero")
                return
            if self.ctx.entails(z3.Not(z.t)):
                return
            if self.ctx.merge_mode:
                g = [ops.as_bool_term(x) for x in self.ctx.guards]
                goal = z3.Implies(z3.And(g), z3.Not(z.t)) if g else z3.Not(z.t)
                if not self.ctx.nofork:
                    self.ctx.check("no_division_by_zero_in_loop_body", goal)
                self.ctx.facts.append(goal)
                return
            if self.ctx.branch(z):
                raise PyRaise("ZeroDivisionError", "division by zero")

    def seq_binop(self, op, a, b):
        if op == "+" and isinstance(a, list) and isinstance(b, list):
            return a + b
        if op == "+" and isinstance(a, tuple) and isinstance(b, tuple):
            return a + b
        if op == "*":
            seq, n = (a, b) if isinstance(a, (list, tuple)) else (b, a)
            if isinstance(n, bool):
                n = int(n)
            if isinstance(n, int):
                return seq * n
            if isinstance(n, Sym) and n.kind == "int" and isinstance(seq, list):
                if len(seq) != 1:
                    raise Unsupported("list of length != 1 repeated a symbolic number of times")
                x = seq[0]
                # [x] * n with n <= 0 is the empty list
                ln = ops.nonneg_len(n)
                return Arr(ln, fn=lambda i, x=x: x, dtype=ops.dtype_of_scalar(x), is_nd=False)
        if op == "%" and isinstance(a, str):
            return a
        raise PyRaise("TypeError", f"unsupported sequence operation {op} on {type(a).__name__}, {type(b).__name__}")

    def arr_or_list_binop(self, op, a, b):
        # Python-list semantic when neither side is an ndarray
        a_nd = isinstance(a, Arr) and a.is_nd
        b_nd = isinstance(b, Arr) and b.is_nd
        if not a_nd and not b_nd:
            la = self.as_list_arr(a) if isinstance(a, (list, Arr)) else None
            lb = self.as_list_arr(b) if isinstance(b, (list, Arr)) else None
            if op == "+" and la is not None and lb is not None:
                return self.concat(la, lb, is_nd=False)
            if op == "*":
                seq, n = (la, b) if la is not None else (lb, a)
                if isinstance(n, int) and seq.concrete_len():
                    return seq.materialise() * n
                raise Unsupported("repetition of a symbolic-length list")
            raise PyRaise("TypeError", f"unsupported list operation {op}")
        # numpy semantics: lists are converted to arrays
        if isinstance(a, (list, tuple)):
            a = self.to_ndarray(a)
        if isinstance(b, (list, tuple)):
            b = self.to_ndarray(b)
        if isinstance(a, Arr) and not a.is_nd:
            a = self.to_ndarray(a)
        if isinstance(b, Arr) and not b.is_nd:
            b = self.to_ndarray(b)
        if isinstance(a, Obj) or isinstance(b, Obj):
            raise Unsupported("ndarray op object")
        return ops.arr_binop(op, a, b)

    def as_list_arr(self, v):
        if isinstance(v, Arr):
            return v
        return Arr(len(v), elems=list(v), dtype="object", is_nd=False)

    def concat(self, a, b, is_nd):
        if a.concrete_len() and b.concrete_len():
            r = a.copy().materialise() + b.copy().materialise()
            if not is_nd:
                return list(r)
            return Arr(len(r), elems=list(r), dtype=_join_dtype(a.dtype, b.dtype), is_nd=True)
        la = a.length
        ln = ops.scalar_binop("+", la, b.length)
        lat = ops.as_int_term(la)

        def fn(i, a=a, b=b):
            it = i if not isinstance(i, int) else z3.IntVal(i)
            c = simp(Sym(it < lat, "bool"))
            if isinstance(c, bool):
                return a.get(i) if c else b.get(self.idx_sub(i, la))
            return ops.ite(c, a.get(i), b.get(self.idx_sub(i, la)))

        return Arr(ln, fn=fn, dtype=_join_dtype(a.dtype, b.dtype), is_nd=is_nd)

    def idx_sub(self, i, off):
        r = ops.scalar_binop("-", Sym(i, "int") if not isinstance(i, int) else i, off)
        if isinstance(r, Sym):
            return r.t
        return r

    def to_ndarray(self, v, dtype=None):
        from .npmodel import np_array

        return np_array(self.ctx, v, dtype=dtype)

    def ex_Compare(self, e, env):
        left = self.eval(e.left, env)
        acc = None
        for op, right_e in zip(e.ops, e.comparators):
            right = self.eval(right_e, env)
            r = self.compare(op, left, right)
            if acc is None:
                acc = r
            else:
                ta, tr = self.truth(acc), self.truth(r)
                if isinstance(ta, bool) and isinstance(tr, bool):
                    acc = ta and tr
                elif isinstance(ta, bool):
                    acc = tr if ta else False
                elif isinstance(tr, bool):
                    acc = ta if tr else False
                else:
                    acc = ops.s_and(ta, tr)
            if acc is False:
                return False
            left = right
        return acc

    def compare(self, op, a, b):
        if isinstance(op, ast.Is):
            return self.identical(a, b)
        if isinstance(op, ast.IsNot):
            return not self.identical(a, b)
        if isinstance(op, ast.In):
            return self.contains(b, a)
        if isinstance(op, ast.NotIn):
            return ops.s_not(self.contains(b, a))
        sop = CMPOPS[type(op)]
        if type(a).__name__ == "ApproxVal" or type(b).__name__ == "ApproxVal":
            # pytest.approx: |x - expected| <= max(rel * |expected|, abs) with rel 1e-6, abs 1e-12 by default
            ap, x = (a, b) if type(a).__name__ == "ApproxVal" else (b, a)
            rel = ap.rel if ap.rel is not None else Fraction(1, 10 ** 6)
            ab = ap.abs if ap.abs is not None else Fraction(1, 10 ** 12)
            tol = ops.smax(ops.scalar_binop("*", rel, ops.scalar_abs(ap.expected)), ab)
            close = ops.scalar_compare("<=", ops.scalar_abs(ops.scalar_binop("-", x, ap.expected)), tol)
            return close if sop == "==" else ops.s_not(close)
        if isinstance(a, self.pd_types) or isinstance(b, self.pd_types):
            return self.pd_compare(sop, a, b)
        if isinstance(a, Obj):
            name = CMP_DUNDER[sop]
            f, _ = a.cls.lookup(name)
            if f is not None:
                return self.call_method(a, name, [b])
            if sop == "==":
                return a is b
            if sop == "!=":
                return a is not b
            raise PyRaise("TypeError", f"'{sop}' not supported for {a!r}")
        if isinstance(b, Obj):
            if sop == "==":
                return False
            if sop == "!=":
                return True
            raise PyRaise("TypeError", f"'{sop}' not supported for {b!r}")
        if (isinstance(a, Arr) and a.is_nd) or (isinstance(b, Arr) and b.is_nd):
            return self.arr_or_list_binop(sop, a, b)
        if isinstance(a, (list, tuple)) and isinstance(b, (list, tuple)) and sop in ("==", "!="):
            eq = self.seq_equal(a, b)
            return eq if sop == "==" else ops.s_not(eq)
        if isinstance(a, (dict,)) and isinstance(b, dict) and sop in ("==", "!="):
            if set(a) != set(b):
                return sop == "!="
            eq = True
            for k in a:
                r = self.truth(self.compare(ast.Eq(), a[k], b[k]))
                eq = r if eq is True else (False if r is False else ops.s_and(eq, r))
                if eq is False:
                    break
            return eq if sop == "==" else ops.s_not(eq)
        if isinstance(a, (ClassVal, FuncVal, Native, NativeModule, ModuleVal)) or isinstance(
            b, (ClassVal, FuncVal, Native, NativeModule, ModuleVal)
        ):
            if sop == "==":
                return a is b
            if sop == "!=":
                return a is not b
        if isinstance(a, (list, tuple, dict, OpenDict, Arr)) or isinstance(b, (list, tuple, dict, OpenDict, Arr)):
            if isinstance(a, Arr) or isinstance(b, Arr):
                # python-list series compared as lists
                raise Unsupported("comparison of list-kind series")
            if sop == "==":
                return False
            if sop == "!=":
                return True
        return ops.scalar_compare(sop, a, b)

    def seq_equal(self, a, b):
        if len(a) != len(b):
            return False
        acc = True
        for x, y in zip(a, b):
            r = self.truth(self.compare(ast.Eq(), x, y))
            if r is False:
                return False
            if r is True:
                continue
            acc = r if acc is True else ops.s_and(acc, r)
        return acc

    def identical(self, a, b):
        if a is None or b is None:
            return a is b
        if isinstance(a, bool) or isinstance(b, bool):
            return a is b
        if isinstance(a, (int, str, Fraction)) and isinstance(b, (int, str, Fraction)):
            return type(a) is type(b) and a == b
        return a is b

    def contains(self, container, x):
        if isinstance(container, str) or (isinstance(container, Sym) and container.kind == "str"):
            if isinstance(container, str) and isinstance(x, str):
                return x in container
            tc, _ = ops.term_of(container)
            tx, kx = ops.term_of(x)
            if kx != "str":
                raise PyRaise("TypeError", "'in <string>' requires string as left operand")
            return simp(Sym(z3.Contains(tc, tx), "bool"))
        if isinstance(container, dict):
            return self.dict_find(container, x) is not _MISSING
        if isinstance(container, OpenDict):
            k = self.hashable(x)
            if k in container.entries:
                return True
            if k in container.deleted or container.closed or container.default is None:
                return False
            raise Unsupported(f"membership test of unwritten key {k!r} in open dictionary {container.name}")
        if isinstance(container, (list, tuple, set, frozenset)):
            acc = False
            for y in container:
                r = self.truth(self.compare(ast.Eq(), x, y))
                if r is True:
                    return True
                if r is False:
                    continue
                acc = r if acc is False else ops.s_or(acc, r)
            return acc
        if isinstance(container, Arr) and container.concrete_len():
            return self.contains([container.get(k) for k in range(container.length)], x)
        if isinstance(container, Arr):
            # x in <symbolic-length list>: exists an index with an equal element
            from .npmodel import sym_any

            eqs = Arr(container.length, fn=lambda i: self.truth(self.compare(ast.Eq(), x, container.get(i))), dtype="bool", is_nd=False)
            return sym_any(self.ctx, eqs)
        if isinstance(container, RangeVal):
            if all(isinstance(v, int) for v in (container.start, container.stop, container.step, x)):
                return x in range(container.start, container.stop, container.step)
        raise Unsupported(f"'in' on {type(container).__name__}")

    def truth(self, v):
        """-> Python bool or Sym(bool)."""
        if isinstance(v, bool):
            return v
        if v is None:
            return False
        if isinstance(v, Sym):
            if v.kind == "bool":
                return v
            return simp(Sym(ops.as_bool_term(v), "bool"))
        if isinstance(v, (int, Fraction)):
            return v != 0
        if isinstance(v, FloatSpecial):
            return True
        if isinstance(v, (str, list, tuple, dict, set, frozenset)):
            return len(v) > 0
        if isinstance(v, OpenDict):
            return len(v.entries) > 0 or not v.closed
        if isinstance(v, Arr):
            if not v.is_nd:
                ln = v.length
                return ln > 0 if isinstance(ln, int) else simp(Sym(ln.t > 0, "bool"))
            if v.concrete_len() and v.length == 1:
                return self.truth(v.get(0))
            raise PyRaise("ValueError", "truth value of an array with more than one element is ambiguous")
        if isinstance(v, Obj):
            f, _ = v.cls.lookup("__bool__")
            if f is not None:
                return self.truth(self.call_method(v, "__bool__", []))
            f, _ = v.cls.lookup("__len__")
            if f is not None:
                return self.truth(self.call_method(v, "__len__", []))
            return True
        if isinstance(v, LpConstraint):
            # PuLP: a constraint is an affine expression (a dict of variables): it is truthy as soon as it mentions a
            # variable - which is how `a <= x <= b` silently keeps only `x <= b`
            names, seen, stack = set(), set(), [v.formula]
            while stack:
                t = stack.pop()
                if t.get_id() in seen:
                    continue
                seen.add(t.get_id())
                if z3.is_app(t) and t.decl().kind() == z3.Z3_OP_UNINTERPRETED:
                    names.add(t.decl().name())
                stack.extend(t.children())
            lp_names = {str(getattr(x, "term", x)) for x in self.ctx.lp_vars}
            if any(n.startswith("V_") or n in lp_names for n in names):
                return True
            raise Unsupported("truth value of an LP constraint without variables")
        if isinstance(v, Opaque):
            raise Unsupported(f"truth value of {v!r}")
        return True

    # ---- attribute / subscript

    def ex_Attribute(self, e, env):
        return self.get_attr(self.eval(e.value, env), e.attr)

    def get_attr(self, obj, name):
        from .builtins_model import builtin_attr

        if isinstance(obj, Obj):
            if name in obj.attrs:
                return obj.attrs[name]
            v, owner = obj.cls.lookup(name)
            if v is not None or owner is not None:
                return self.bind(v, obj, obj.cls)
            if name == "__class__":
                return obj.cls
            if name == "__dict__":
                return obj.attrs
            hook = getattr(obj, "missing_attr", None)
            if hook is not None:
                return hook(name)
            raise PyExc(ExcVal("AttributeError", (f"'{obj.cls.name}' object has no attribute '{name}'",)))
        if isinstance(obj, ClassVal):
            v, owner = obj.lookup(name)
            if owner is None:
                if name == "__name__":
                    return obj.name
                raise PyExc(ExcVal("AttributeError", (f"class {obj.name} has no attribute '{name}'",)))
            if isinstance(v, FuncVal) and v.kind == "classmethod":
                return BoundMethod(v, obj)
            return v
        if isinstance(obj, ModuleVal):
            if name in obj.ns:
                return obj.ns[name]
            sub = self.import_module(obj.name + "." + name)
            if isinstance(sub, ModuleVal):
                return sub
            raise PyExc(ExcVal("AttributeError", (f"module {obj.name} has no attribute {name}",)))
        if isinstance(obj, self.PathVal):
            return Opaque(f"path.{name}")
        if isinstance(obj, NativeModule):
            if name in obj.ns:
                return obj.ns[name]
            if obj.dropped:
                return NativeModule(obj.name + "." + name, {}, dropped=True)
            sub = self.native_modules.get(obj.name + "." + name)
            if sub is not None:
                return sub
            return Opaque(f"{obj.name}.{name}")
        if isinstance(obj, Opaque):
            return Opaque(f"{obj.what}.{name}")
        return builtin_attr(self, obj, name)

    def bind(self, v, selfv, cls):
        if isinstance(v, FuncVal):
            if v.kind == "staticmethod":
                return v
            if v.kind == "classmethod":
                return BoundMethod(v, cls)
            if v.kind == "property":
                return self.call_function(v, [selfv], {})
            return BoundMethod(v, selfv)
        return v

    def set_attr(self, obj, name, v):
        if self.ctx.loop_capture and id(obj) in self.ctx.loop_capture[-1]["objs"]:
            raise Unsupported(f"summarised loop body assigns attribute '{name}' of an object defined outside the loop")
        if isinstance(obj, Obj):
            obj.attrs[name] = v
            w = getattr(obj, "write_log", None)
            if w is not None:
                w.add(name)
        elif isinstance(obj, ClassVal):
            obj.ns[name] = v
        elif isinstance(obj, ModuleVal):
            obj.ns[name] = v
        elif type(obj).__name__ == "LpModel" and name in ("sense", "objective", "name"):
            setattr(obj, name, v)
        else:
            raise Unsupported(f"attribute assignment on {type(obj).__name__}")

    def ex_Subscript(self, e, env):
        obj = self.eval(e.value, env)
        key = self.eval_index(e.slice, env)
        return self.get_item(obj, key)

    def eval_index(self, s, env):
        if isinstance(s, ast.Slice):
            return SliceVal(
                None if s.lower is None else self.eval(s.lower, env),
                None if s.upper is None else self.eval(s.upper, env),
                None if s.step is None else self.eval(s.step, env),
            )
        if isinstance(s, ast.Tuple):
            return tuple(self.eval_index(x, env) for x in s.elts)
        return self.eval(s, env)

    def get_item(self, obj, key):
        from .builtins_model import seq_getitem

        if self.ctx.loop_capture and isinstance(obj, Arr) and id(obj) in self.ctx.loop_capture[-1]["arrs"]:
            self.ctx.loop_capture[-1]["reads"].add(id(obj))

        if isinstance(obj, dict):
            k = self.dict_find(obj, key)
            if k is _MISSING:
                raise PyExc(ExcVal("KeyError", (key,)))
            return obj[k]
        if isinstance(obj, OpenDict):
            return self.opendict_get(obj, key)
        if isinstance(obj, Obj):
            return self.call_method(obj, "__getitem__", [key])
        if isinstance(obj, Opaque):
            raise Unsupported(f"subscript of {obj!r}")
        if isinstance(obj, self.pd_types):
            return self.pd_getitem(obj, key)
        return seq_getitem(self, obj, key)

    def opendict_get(self, d, key):
        k = self.hashable(key)
        d.read.add(k)
        if k in d.entries:
            return d.entries[k]
        if k in d.deleted or d.closed or d.default is None:
            raise PyExc(ExcVal("KeyError", (k,)))
        v = d.default(k)
        d.entries[k] = v
        return v

    def set_item(self, obj, key, v):
        from .builtins_model import seq_setitem

        if self.ctx.loop_capture:
            fr = self.ctx.loop_capture[-1]
            if id(obj) in fr["objs"]:
                raise Unsupported("summarised loop body writes into a dict/list defined outside the loop")
            if isinstance(obj, Arr) and id(obj) in fr["arrs"]:
                from .builtins_model import norm_index, SliceValT
                if isinstance(key, SliceVal) or isinstance(key, (Arr, list, tuple)):
                    raise Unsupported("summarised loop body slice-assigns an outer array")
                fr["writes"].append((obj, norm_index(self, key, obj.length), v))
                return

        if isinstance(obj, dict):
            k = self.dict_find(obj, key)
            obj[self.hashable(key) if k is _MISSING else k] = v
        elif isinstance(obj, OpenDict):
            k = self.hashable(key)
            obj.entries[k] = v
            obj.written.add(k)
            obj.deleted.discard(k)
        elif isinstance(obj, Obj):
            self.call_method(obj, "__setitem__", [key, v])
        elif isinstance(obj, NativeModule) and obj.dropped:
            self.ctx.dropped.add(f"{obj.name}[...] = ... (plotting data)")
        elif isinstance(obj, self.pd_types[0]):
            self.ctx.dropped.add("world map[...] = ... (plotting data)")
        else:
            seq_setitem(self, obj, key, v)

    def del_item(self, obj, key):
        if isinstance(obj, dict):
            k = self.hashable(key)
            if k not in obj:
                raise PyExc(ExcVal("KeyError", (k,)))
            del obj[k]
        elif isinstance(obj, OpenDict):
            k = self.hashable(key)
            obj.entries.pop(k, None)
            obj.deleted.add(k)
            obj.written.add(k)
        elif isinstance(obj, list) and isinstance(key, int):
            del obj[key]
        else:
            raise Unsupported("del item")

    def ex_Slice(self, e, env):
        return self.eval_index(e, env)

    def ex_Starred(self, e, env):
        raise Unsupported("starred expression outside call/collection")

    # ---- comprehensions

    def ex_ListComp(self, e, env):
        return self.comprehension(e, env, "list")

    def ex_GeneratorExp(self, e, env):
        return GenVal(self.comprehension(e, env, "list"))

    def ex_SetComp(self, e, env):
        return set(self.hashable(x) for x in self.comprehension(e, env, "list"))

    def ex_DictComp(self, e, env):
        return dict(self.comprehension(e, env, "dict"))

    def comprehension(self, e, env, kind):
        cenv = Env(env, env.module, func=env.func)
        out = []
        gens = e.generators

        def rec(gi):
            if gi == len(gens):
                if kind == "dict":
                    out.append((self.hashable(self.eval(e.key, cenv)), self.eval(e.value, cenv)))
                else:
                    out.append(self.eval(e.elt, cenv))
                return
            g = gens[gi]
            it = self.eval(g.iter, cenv)
            items = self.iterate(it, allow_symbolic=(len(gens) == 1 and kind == "list" and not g.ifs))
            if isinstance(items, SymRange):
                raise _SymComp(items)
            for x in items:
                self.assign_target(g.target, x, cenv)
                ok = True
                for cond in g.ifs:
                    c = self.truth(self.eval(cond, cenv))
                    if not self.ctx.branch(c):
                        ok = False
                        break
                if ok:
                    rec(gi + 1)

        try:
            rec(0)
        except _SymComp as sc:
            # [f(x) for x in <symbolic-length>]: a map over the series, element by element
            rng = sc.rng
            g = gens[0]

            def fn(i):
                x = rng.item(i)
                self.assign_target(g.target, x, cenv)
                return self.eval(e.elt, cenv)

            cnt = rng.count()
            if not self.ctx.branch(self.truth(ops.scalar_compare(">", cnt, 0))):
                return []
            pidx = rng.probe_index(self.ctx)
            cnt_t = ops.as_int_term(cnt)
            # the probe stands for an arbitrary element: it is in range (the count is positive on this path)
            self.ctx.facts.append(z3.And(pidx >= 0, pidx < cnt_t))
            forks_before = self.ctx.forks
            probe = fn(pidx)
            if self.ctx.forks != forks_before:
                raise Unsupported("data-dependent branch inside a comprehension over a symbolic range")
            return Arr(cnt, fn=fn, dtype=ops.dtype_of_scalar(probe) if not isinstance(probe, (Obj, list, tuple, dict)) else "object", is_nd=False)
        return out

    # ---- calls

    def ex_Call(self, e, env):
        # printing and plotting are dropped (recorded), their arguments are not evaluated
        f_node = e.func
        if isinstance(f_node, ast.Name) and f_node.id in ("print", "breakpoint", "quit") and f_node.id not in env.vars:
            if f_node.id == "quit":
                raise PyExc(ExcVal("SystemExit", ()))
            self.ctx.dropped.add(f_node.id + "()")
            return None
        if isinstance(f_node, ast.Name) and f_node.id == "locals" and not e.args and not e.keywords:
            ee, shadowed = env, "locals" in env.module.ns
            while ee is not None and not shadowed:
                shadowed = "locals" in ee.vars
                ee = ee.parent
            if not shadowed:
                # the calling function's own variables (a snapshot, like CPython's)
                return dict(env.vars)
        fn = self.eval(f_node, env)
        if isinstance(fn, NativeModule) and fn.dropped:
            self.ctx.dropped.add(fn.name + "()")
            return NativeModule(fn.name + "()", {}, dropped=True)
        args = []
        for a in e.args:
            if isinstance(a, ast.Starred):
                args.extend(self.iterate(self.eval(a.value, env)))
            else:
                args.append(self.eval(a, env))
        kwargs = {}
        for k in e.keywords:
            if k.arg is None:
                d = self.eval(k.value, env)
                if isinstance(d, OpenDict):
                    d = d.entries
                kwargs.update(d)
            else:
                kwargs[k.arg] = self.eval(k.value, env)
        if isinstance(fn, Native) and fn.name == "super" and not args:
            selfv = env.vars.get(env.func.node.args.args[0].arg) if env.func and env.func.node.args.args else None
            return SuperVal(env.func.owner, selfv)
        return self.call(fn, args, kwargs)

    def call(self, fn, args, kwargs):
        if isinstance(fn, BoundMethod):
            return self.call_function(fn.func, [fn.selfv] + list(args), kwargs)
        if isinstance(fn, FuncVal):
            return self.call_function(fn, list(args), kwargs)
        if isinstance(fn, Native):
            try:
                return fn.fn(self.ctx, *args, **kwargs)
            except PyRaise as pr:
                raise PyExc(ExcVal(pr.cls_name, (pr.msg,)))
        if isinstance(fn, ClassVal):
            return self.instantiate(fn, args, kwargs)
        if isinstance(fn, Obj):
            return self.call_method(fn, "__call__", args, kwargs)
        if isinstance(fn, NativeModule) and fn.dropped:
            return NativeModule(fn.name + "()", {}, dropped=True)
        if isinstance(fn, Opaque):
            raise Unsupported(f"call of unmodelled {fn.what}")
        raise Unsupported(f"call of {fn!r}")

    def instantiate(self, cls, args, kwargs):
        if any(isinstance(b, Native) and b.type_tag in EXC_PARENTS for c in cls.mro for b in c.bases):
            exc = ExcVal(cls.name, tuple(args), cls=cls)
            return exc
        obj = Obj(cls)
        init, _ = cls.lookup("__init__")
        if init is not None:
            self.call_function(init, [obj] + list(args), kwargs)
        elif args or kwargs:
            raise PyRaise("TypeError", f"{cls.name}() takes no arguments")
        return obj

    def call_method(self, obj, name, args, kwargs=None):
        f = self.get_attr(obj, name)
        return self.call(f, args, kwargs or {})

    def func_info(self, fv):
        if not hasattr(fv, "_false_flags"):
            fv._false_flags = _const_false_flags(fv.node)
            loops = [n for n in ast.walk(fv.node) if isinstance(n, (ast.For, ast.While))]
            loops.sort(key=lambda n: (n.lineno, n.col_offset))
            ids = {id(n): k for k, n in enumerate(loops)}
            fv._loop_ordinal = lambda node, ids=ids: ids.get(id(node))
            asserts = [n for n in ast.walk(fv.node) if isinstance(n, ast.Assert)]
            asserts.sort(key=lambda n: (n.lineno, n.col_offset))
            aids = {id(n): k for k, n in enumerate(asserts)}
            fv._assert_ordinal = lambda node, aids=aids: aids.get(id(node))
            fv._relpath = fv.module.path if isinstance(fv.module, ModuleVal) else None
            fv._qualname = (fv.owner.name + "." if fv.owner is not None else "") + fv.name
        return fv

    def call_function(self, fv, args, kwargs):
        self.func_info(fv)
        key = (fv._relpath, fv._qualname)
        summ = self.summaries.get(key)
        if summ is not None and not getattr(self, "_inside_summary", None) == key:
            # a summary sees the call the way the callee would: keyword arguments that name leading parameters are
            # moved to their positions (f(a, b=x) and f(a, x) are the same call)
            # (f(a, b=x) and f(a, x) are the same call): `args` is the longest positional prefix that can be formed,
            # `kwargs` names EVERY supplied argument - a summary may use either, whichever way the call was written
            if fv.node.args.vararg is None:
                params = [p.arg for p in fv.node.args.posonlyargs + fv.node.args.args]
                if len(args) <= len(params):
                    named = dict(zip(params, args))
                    named.update(kwargs)
                    args = list(args)
                    while len(args) < len(params) and params[len(args)] in kwargs:
                        args.append(kwargs[params[len(args)]])
                    kwargs = named
            return summ(self, self.ctx, fv, args, kwargs)
        env = Env(fv.env, fv.module, func=fv)
        self.bind_args(fv, env, args, kwargs)
        self.ctx.call_depth += 1
        self.ctx.call_stack.append(f"{fv._qualname}@{getattr(self.ctx, 'cur_line', '?')}")
        if self.ctx.call_depth > 80:
            raise Unsupported("call depth > 80: " + " > ".join(self.ctx.call_stack[-12:]))
        try:
            self.exec_block(_exec_body(fv), env)
        except ReturnSig as r:
            return r.value
        finally:
            self.ctx.call_depth -= 1
            self.ctx.call_stack.pop()
        return None

    def bind_args(self, fv, env, args, kwargs):
        a = fv.node.args
        params = [p.arg for p in a.posonlyargs + a.args]
        kwargs = dict(kwargs)
        n = len(params)
        vals = {}
        if len(args) > n and a.vararg is None:
            raise PyExc(ExcVal("TypeError", (f"{fv.name}() takes {n} positional arguments but {len(args)} were given",)))
        for p, v in zip(params, args):
            vals[p] = v
        if a.vararg is not None:
            vals[a.vararg.arg] = tuple(args[n:])
        defaults = fv.defaults or []
        first_default = n - len(defaults)
        for i, p in enumerate(params):
            if p in vals:
                if p in kwargs:
                    raise PyExc(ExcVal("TypeError", (f"{fv.name}() got multiple values for argument '{p}'",)))
                continue
            if p in kwargs:
                vals[p] = kwargs.pop(p)
            elif i >= first_default:
                vals[p] = defaults[i - first_default]
            else:
                raise PyExc(ExcVal("TypeError", (f"{fv.name}() missing required argument '{p}'",)))
        for p, d in zip(a.kwonlyargs, fv.kw_defaults or []):
            if p.arg in kwargs:
                vals[p.arg] = kwargs.pop(p.arg)
            elif d is not None or True:
                vals[p.arg] = d
        if a.kwarg is not None:
            vals[a.kwarg.arg] = kwargs
        elif kwargs:
            raise PyExc(ExcVal("TypeError", (f"{fv.name}() got an unexpected keyword argument '{next(iter(kwargs))}'",)))
        env.vars.update(vals)


_MISSING = object()


def _has_sym(k):
    if isinstance(k, Sym):
        return True
    if isinstance(k, tuple):
        return any(_has_sym(x) for x in k)
    return False


class SuperVal:
    def __init__(self, owner, selfv):
        self.owner = owner
        self.selfv = selfv


class RangeVal:
    def __init__(self, start, stop, step):
        self.start, self.stop, self.step = start, stop, step

    def __repr__(self):
        return f"range({self.start},{self.stop},{self.step})"


class SliceVal:
    def __init__(self, lo, hi, step):
        self.lo, self.hi, self.step = lo, hi, step

    def __repr__(self):
        return f"slice({self.lo},{self.hi},{self.step})"


class GenVal:
    def __init__(self, items):
        self.items = items


class SymStrOfInt:
    """str(k) for a symbolic integer k: only ever used in names/messages."""

    @staticmethod
    def make(x):
        return f"<int:{x.t}>"


class SymRange:
    """range(start, stop, step) with symbolic bounds, or the elements of a symbolic-length series."""

    def __init__(self, start, stop, step, arr=None):
        self.start, self.stop, self.step, self.arr = start, stop, step, arr
        if not (isinstance(step, int) and step == 1):
            raise Unsupported("symbolic range with step != 1")

    def count(self):
        n = ops.scalar_binop("-", self.stop, self.start)
        return ops.nonneg_len(n)

    def item(self, i):
        """i-th item (i: int or z3 Int term)."""
        iv = i if isinstance(i, int) else Sym(i, "int")
        k = ops.scalar_binop("+", self.start, iv)
        if self.arr is not None:
            return self.arr.get(k.t if isinstance(k, Sym) else k)
        return k

    def probe_index(self, ctx):
        return ctx.fresh("probe", "int").t


class _SymComp(Exception):
    def __init__(self, rng):
        self.rng = rng


def _join_dtype(a, b):
    if "object" in (a, b):
        return "object"
    if "float" in (a, b):
        return "float"
    if a == b:
        return a
    return "int"


def _exec_body(fv):
    """The statements executed for a call.  A body that ENDS in `if c: return a` + `return b` (or if / else with a return
    in each arm), a and b free of calls with effects, is executed as `return a if c else b`: the same function (one arm
    is evaluated, chosen by c), but a conditional EXPRESSION can be merged into an if-then-else term where the
    statement form would fork the path - a helper of this shape called once per month would otherwise cost 2^years paths."""
    body = getattr(fv, "_exec_body_cache", None)
    if body is not None:
        return body
    body = list(fv.node.body)
    a = b = test = None
    if len(body) >= 2 and isinstance(body[-2], ast.If) and not body[-2].orelse and len(body[-2].body) == 1 \
            and isinstance(body[-2].body[0], ast.Return) and isinstance(body[-1], ast.Return):
        test, a, b, cut = body[-2].test, body[-2].body[0].value, body[-1].value, 2
    elif body and isinstance(body[-1], ast.If) and len(body[-1].body) == 1 and len(body[-1].orelse) == 1 \
            and isinstance(body[-1].body[0], ast.Return) and isinstance(body[-1].orelse[0], ast.Return):
        test, a, b, cut = body[-1].test, body[-1].body[0].value, body[-1].orelse[0].value, 1
    if test is not None and a is not None and b is not None and _is_pure(a) and _is_pure(b):
        ret = ast.Return(value=ast.IfExp(test=test, body=a, orelse=b))
        ast.copy_location(ret, body[-cut])
        ast.copy_location(ret.value, body[-cut])
        body = body[:-cut] + [ret]
    fv._exec_body_cache = body
    return body


_PURE_NAMES = {"round", "print", "str", "float", "int", "bool", "min", "max", "abs", "len", "isinstance", "sum", "range", "list", "tuple"}
_PURE_NP = {"zeros", "ones", "array", "minimum", "maximum", "abs", "where", "round", "sum", "isnan", "zeros_like", "ones_like", "full", "clip"}


def _merge_safe_call(n):
    f = n.func
    if isinstance(f, ast.Name):
        return f.id in _PURE_NAMES
    if isinstance(f, ast.Attribute):
        if f.attr == "append":
            return True   # appends to visible lists are merged element-wise (see _merge_if)
        if isinstance(f.value, ast.Name) and f.value.id in ("np", "numpy", "math") and f.attr in _PURE_NP | {"floor", "ceil", "sqrt", "isnan"}:
            return True
    return False


def _is_pure(node):
    """Conservatively: evaluating the expression has no side effect and cannot fork/raise badly."""
    for n in ast.walk(node):
        if isinstance(n, (ast.Call,)):
            f = n.func
            if isinstance(f, ast.Name) and f.id in ("isinstance", "len", "abs", "min", "max", "hasattr", "type", "str", "float", "int"):
                continue
            if isinstance(f, ast.Attribute) and f.attr in ("all", "any", "is_list_monthly", "is_a_ratio",
                                                           "is_units_percent", "startswith", "endswith", "lower",
                                                           "is_never_negative", "get_min_nutrient"):
                continue
            return False
        if isinstance(n, (ast.NamedExpr, ast.Yield, ast.Await, ast.Lambda, ast.ListComp, ast.GeneratorExp)):
            return False
    return True


BINOPS = {
    ast.Add: "+", ast.Sub: "-", ast.Mult: "*", ast.Div: "/", ast.FloorDiv: "//", ast.Mod: "%", ast.Pow: "**",
    ast.BitAnd: "and", ast.BitOr: "or", ast.MatMult: "@",
}
DUNDER = {"+": "__add__", "-": "__sub__", "*": "__mul__", "/": "__truediv__", "//": "__floordiv__",
          "%": "__mod__", "**": "__pow__", "and": "__and__", "or": "__or__", "@": "__matmul__"}
RDUNDER = {"+": "__radd__", "-": "__rsub__", "*": "__rmul__", "/": "__rtruediv__", "//": "__rfloordiv__",
           "%": "__rmod__", "**": "__rpow__", "and": "__rand__", "or": "__ror__", "@": "__rmatmul__"}
CMPOPS = {ast.Eq: "==", ast.NotEq: "!=", ast.Lt: "<", ast.LtE: "<=", ast.Gt: ">", ast.GtE: ">="}
CMP_DUNDER = {"==": "__eq__", "!=": "__ne__", "<": "__lt__", "<=": "__le__", ">": "__gt__", ">=": "__ge__"}
