"""Unbounded loops: invariant-carrying loops (LoopSpec) and automatic summarisation of 'map' loops.

A loop over a symbolic range is never unrolled.  Either the contract supplies an inductive invariant
(entry / preservation obligations are generated, the continuation assumes invariant + exit), or the
loop is a map loop -- every iteration appends exactly one element computed from the loop variable and
loop-invariant data to lists defined outside -- and is summarised by the series representation.
"""
import ast
import z3

from .values import Sym, Arr, Obj, Opaque, Unsupported, EngineError, OpenDict
from . import ops
from .ops import simp


class LoopBodyDone(Exception):
    """End of an inductive-step path (the body of an invariant-carrying loop was checked)."""


def assigned_names(stmts):
    names = set()
    for st in stmts:
        for n in ast.walk(st):
            if isinstance(n, ast.Name) and isinstance(n.ctx, ast.Store):
                names.add(n.id)
    return names


def auto_summarise(I, st, env, rng):
    """for x in <symbolic range>: ... lst.append(e(x)) ...  ->  lst = lst ++ [e(x) for x in range]."""
    ctx = I.ctx
    if st.orelse:
        raise Unsupported("for/else over a symbolic range")
    count = rng.count()
    pos_before, forks_before = ctx.pos, ctx.forks

    # lists visible before the loop: appends to them are captured, not performed
    outer_lists = {}
    e = env
    while e is not None:
        for name, v in e.vars.items():
            if isinstance(v, (list, Arr)) and not (isinstance(v, Arr) and v.is_nd):
                outer_lists.setdefault(id(v), (v, []))[1].append((e, name))
        e = e.parent

    from .interp import Env

    snap_vars = dict(env.vars)
    cache = {}

    # mutable objects that exist before the loop: element writes A[k] = v(k) at the loop index are captured
    # (point-wise update loop); any other write to them from the body is out of reach
    outer_arrs, outer_objs = {}, set()

    def scan(v, depth=0):
        if depth > 3:
            return
        if isinstance(v, Arr):
            outer_arrs[id(v)] = v
        elif isinstance(v, Obj):
            if id(v) in outer_objs:
                return
            outer_objs.add(id(v))
            for x in v.attrs.values():
                scan(x, depth + 1)
        elif isinstance(v, (list, tuple)):
            outer_objs.add(id(v))
            for x in v[:200]:
                scan(x, depth + 1)
        elif isinstance(v, dict):
            outer_objs.add(id(v))
            for x in v.values():
                scan(x, depth + 1)
        elif isinstance(v, OpenDict):
            outer_objs.add(id(v))
            for x in v.entries.values():
                scan(x, depth + 1)

    outer_models = set()
    e_ = env
    while e_ is not None:
        for v_ in e_.vars.values():
            scan(v_)
            if type(v_).__name__ == "LpModel":
                outer_models.add(id(v_))
        e_ = e_.parent

    def body_at(i):
        """Run the body (in a snapshot of the scope taken at loop time) with the loop variable bound to
        item i; returns {id(list): appended value}."""
        key = i if isinstance(i, int) else ("t", i.get_id())
        if key in cache:
            return cache[key][1]
        senv = Env(env.parent, env.module, func=env.func)
        senv.vars = dict(snap_vars)
        senv.globals_decl, senv.nonlocal_decl = env.globals_decl, env.nonlocal_decl
        # a closure defined in this function BEFORE the loop reads and writes the function's scope, which for the
        # duration of this body is `senv` (Python has one scope per function, not one per loop body)
        import copy as _copy
        for k_, v_ in list(senv.vars.items()):
            if type(v_).__name__ == "FuncVal" and getattr(v_, "env", None) is env:
                v2_ = _copy.copy(v_)
                v2_.env = senv
                senv.vars[k_] = v2_
        captured = {}
        saved = {lid: list(v) for lid, (v, _) in outer_lists.items() if isinstance(v, list)}
        I.assign_target(st.target, rng.item(i), senv)
        ctx.merge_mode += 1
        frame = {"arrs": outer_arrs, "objs": outer_objs, "writes": [], "reads": set(), "models": outer_models}
        ctx.loop_capture.append(frame)
        try:
            I.exec_block(st.body, senv)
        except Exception as ex:
            from .interp import BreakSig, ContinueSig

            if isinstance(ex, (BreakSig, ContinueSig)):
                raise Unsupported("break/continue inside a summarised loop")
            raise
        finally:
            ctx.merge_mode -= 1
            ctx.loop_capture.pop()
        for n_, (mdl, item) in enumerate(frame.get("model_adds", [])):
            captured[("m", id(mdl), n_)] = (mdl, item)
        item_t = rng.item(i)
        item_t = item_t.t if isinstance(item_t, Sym) else item_t
        for (arr, idx, val) in frame["writes"]:
            if rng.arr is not None:
                raise Unsupported("element write inside a summarised loop over a series")
            same = (idx == item_t) if isinstance(idx, int) and isinstance(item_t, int) else (
                z3.is_expr(idx) and z3.is_expr(item_t) and z3.simplify(idx == item_t).eq(z3.BoolVal(True)))
            if not same:
                raise Unsupported("summarised loop writes an outer array at an index other than the loop variable")
            if id(arr) in frame["reads"]:
                raise Unsupported("summarised loop reads an outer array it also writes (loop-carried dependence)")
            if ("w", id(arr)) in captured:
                raise Unsupported("summarised loop writes the same outer array twice per iteration")
            captured[("w", id(arr))] = val
        for lid, (v, _) in outer_lists.items():
            if isinstance(v, list):
                old = saved[lid]
                new = v[len(old):]
                del v[len(old):]
                if len(v) != len(old) or any(a is not b for a, b in zip(v, old)):
                    raise Unsupported("summarised loop modifies existing list elements")
                if len(new) > 1:
                    raise Unsupported("summarised loop appends more than once per iteration to one list")
                if new:
                    captured[lid] = new[0]
            elif v.length is not cache.get(("len", lid), v.length):
                raise Unsupported("append to a symbolic-length list inside a summarised loop")
        cache[key] = (i, captured)
        return captured

    for lid, (v, _) in outer_lists.items():
        if isinstance(v, Arr):
            cache[("len", lid)] = v.length

    k = ctx.fresh("loop_k", "int")
    # the probe index is a fresh symbol: the (guarded) range fact can stay for the rest of the path
    cnt_t = ops.as_int_term(count)
    ctx.facts.append(z3.Implies(cnt_t > 0, z3.And(k.t >= 0, k.t < cnt_t)))
    sig_before = (len(ctx.facts), len(ctx.quantified), len(ctx.sums), ctx.counter, len(ctx.lp_vars))
    probe = body_at(k.t)
    # if the probe introduced no fresh symbols or side facts, every element is the probe's term with
    # the loop index substituted (the body is then executed once, not once per index used)
    pure_probe = sig_before == (len(ctx.facts), len(ctx.quantified), len(ctx.sums), ctx.counter, len(ctx.lp_vars))
    if ctx.forks != forks_before or ctx.pos < len(ctx.decisions) and False:
        raise Unsupported("data-dependent branch inside a loop over a symbolic range (needs a loop invariant)")

    temporaries = assigned_names(st.body) | assigned_names([ast.Expr(value=st.target)])
    for n in ast.walk(st.target):
        if isinstance(n, ast.Name):
            temporaries.add(n.id)

    lo_t = ops.as_int_term(rng.start) if rng.arr is None else None
    for key_, elem_probe in list(probe.items()):
        if isinstance(key_, tuple) and key_[0] == "m":
            mdl, item = elem_probe
            nm = None
            if isinstance(item, tuple):
                item, nm = item[0], (item[1] if len(item) > 1 else None)
            from .values import LpConstraint
            if not isinstance(item, LpConstraint) or not pure_probe:
                raise Unsupported("summarised loop adds something other than a plain constraint to the model")
            mdl.families.append((cnt_t, k.t, item.formula, nm))
            continue
        if not (isinstance(key_, tuple) and key_[0] == "w"):
            continue
        arr = outer_arrs[key_[1]]
        old = arr.copy()

        def wfn(i, key_=key_, elem_probe=elem_probe, old=old, arr=arr):
            it = i if not isinstance(i, int) else z3.IntVal(i)
            inside = simp(Sym(z3.And(it >= lo_t, it < lo_t + cnt_t), "bool"))
            if isinstance(inside, bool) and not inside:
                return old.get(i)
            # loop index whose item is i:  i - start
            pos = z3.simplify(it - lo_t)
            if pure_probe and not isinstance(elem_probe, (Obj, list, tuple, dict, Arr)):
                nv = elem_probe if not isinstance(elem_probe, Sym) else simp(Sym(z3.substitute(elem_probe.t, (k.t, pos)), elem_probe.kind))
            else:
                nv = body_at(pos if not z3.is_int_value(pos) else pos.as_long())[key_]
            nv = ops.cast_elem(nv, arr.dtype) if arr.is_nd else nv
            if isinstance(inside, bool):
                return nv
            return ops.ite(inside, nv, old.get(i))

        arr.elems, arr.fn = None, wfn
        if arr.concrete_len() and False:
            arr.materialise()
    for lid, elem_probe in probe.items():
        if isinstance(lid, tuple):
            continue
        v, refs = outer_lists[lid]

        def fn(i, lid=lid, elem_probe=elem_probe):
            if pure_probe and not isinstance(elem_probe, (Obj, list, tuple, dict, Arr)):
                if not isinstance(elem_probe, Sym):
                    return elem_probe
                it = i if not isinstance(i, int) else z3.IntVal(i)
                return simp(Sym(z3.substitute(elem_probe.t, (k.t, it)), elem_probe.kind))
            return body_at(i)[lid]

        piece = Arr(count, fn=fn, dtype=ops.dtype_of_scalar(elem_probe) if not isinstance(elem_probe, (Obj, list, tuple, dict)) else "object", is_nd=False)
        base = Arr(len(v), elems=list(v), dtype="object", is_nd=False)
        if len(v) == 0:
            new = piece
        else:
            new = I.concat(base, piece, is_nd=False)
        for (e, name) in refs:
            e.vars[name] = new
    for name in temporaries:
        if name in env.vars and id(env.vars[name]) not in outer_lists:
            if type(env.vars[name]).__name__ == "LpModel":
                continue  # `model += ...` extends the same object in place
            env.vars[name] = Opaque(f"value of '{name}' after a summarised loop")
    ctx.notes.append(f"map-loop summarised at line {st.lineno}")


class LoopSpec:
    """Inductive invariant for the `ordinal`-th loop (source order) of a function.

    modifies: names of local variables the body may change (checked syntactically: every name stored in
              the body must be listed or be a declared temporary).
    invariant(view, k): formula over the current values of locals (`view.name`) at the start of iteration
              k (k counts from 0) -- also required to hold on exit with k = number of iterations.
    havoc(ctx, name, old): optional custom havoc; default keeps the shape of `old` with fresh contents.
    """

    def __init__(self, modifies, invariant, temporaries=(), name="loop", havoc=None, optional=()):
        self.modifies = list(modifies)
        self.optional = set(optional)  # roles the loop need not have (the invariant uses view.get for them)
        self.invariant = invariant
        self.temporaries = set(temporaries)
        self.declared_temporaries = set(temporaries)
        self.name = name
        self.havoc = havoc

    def run(self, I, st, env, it):
        from .interp import SymRange, RangeVal, BreakSig, ContinueSig

        ctx = I.ctx
        items = I.iterate(it, allow_symbolic=True)
        if not isinstance(items, SymRange):
            # concrete iteration space: still use the invariant (keeps the proof independent of the length)
            items = _ConcreteItems(items)
        stored = assigned_names(st.body)
        for n in ast.walk(st.target):
            if isinstance(n, ast.Name):
                stored.discard(n.id)
                self.temporaries.add(n.id)
        # The invariant speaks about ROLES (the names the contract was written with); which local plays which role
        # is resolved per run: names stored by the body that do not exist before the loop are temporaries of the body
        # (opaque afterwards), the others are the loop-carried state and must all be covered by a role.  A renamed
        # local is matched to its role by the driver (every assignment is tried; one is accepted only if every
        # obligation of the contract is then discharged - finding the invariant's instantiation is proof search).
        rename = dict(getattr(I, "loop_renames", {}).get(self.name, {}))
        actual = lambda n: rename.get(n, n)
        modifies = [actual(n) for n in self.modifies]

        def defined(n):
            e = env
            while e is not None:
                if n in e.vars:
                    return True
                e = e.parent
            return False

        carried = sorted(n for n in stored if defined(n))
        for n in stored:
            if n not in carried and n not in modifies:
                self.temporaries.add(n)
        unknown = set(carried) - set(modifies) - self.declared_temporaries
        missing = [n for n in modifies if not defined(n) and n not in {actual(o) for o in getattr(self, "optional", ())}]
        modifies = [n for n in modifies if defined(n)]
        if unknown or missing:
            err = EngineError(f"loop contract {self.name}: body stores names not covered by the contract: {sorted(unknown)}"
                              + (f"; the contract's {missing} do not exist" if missing else ""))
            err.loop_names = {"loop": self.name, "unmatched_actual": sorted(unknown),
                              "unmatched_roles": [r for r in self.modifies if actual(r) in missing or not defined(actual(r))]}
            raise err
        count = items.count()
        cnt_t = ops.as_int_term(count)
        view0 = View(env, rename)
        ctx.check(f"{self.name}/invariant_entry", self.invariant(view0, 0))
        olds = {n: env.vars.get(n) for n in modifies}
        # An accumulator initialised with the int literal 0 and then updated with `acc += weight` is a float from the
        # first iteration on: the arbitrary value standing for "after k iterations" must not be integer-kinded unless
        # every update of the name in the body is by an integer literal (a counter).  A real-kinded stand-in for what is
        # in fact an integer is the sound direction.
        from fractions import Fraction as _Fr
        for n in list(olds):
            o = olds[n]
            if (isinstance(o, int) and not isinstance(o, bool)) or (isinstance(o, Sym) and o.kind == "int"):
                if not _only_integer_updates(st.body, n):
                    olds[n] = _Fr(o) if isinstance(o, int) else Sym(z3.ToReal(o.t), "float")
        phase = ctx.fresh("loop_phase", "bool")
        if ctx.branch(phase):
            # inductive step at an arbitrary iteration k
            k = ctx.fresh("k", "int")
            ctx.assume(z3.And(k.t >= 0, k.t < cnt_t))
            ctx.add_index(k.t)
            self._havoc(I, env, olds, "step")
            ctx.assume(as_formula(self.invariant(View(env, rename), k)))
            I.assign_target(st.target, items.item(k.t), env)
            try:
                I.exec_block(st.body, env)
            except ContinueSig:
                pass
            except BreakSig:
                raise Unsupported("break inside an invariant-carrying loop")
            ctx.check(f"{self.name}/invariant_preserved", self.invariant(View(env, rename), ops.scalar_binop("+", k, 1)))
            raise LoopBodyDone()
        # continuation: arbitrary state satisfying the invariant after all iterations
        self._havoc(I, env, olds, "exit")
        ctx.assume(as_formula(self.invariant(View(env, rename), count)))
        for n in self.temporaries:
            if n in env.vars:
                env.vars[n] = Opaque(f"value of '{n}' after loop {self.name}")

    def _havoc(self, I, env, olds, tag):
        ctx = I.ctx
        for n, old in olds.items():
            if self.havoc is not None:
                r = self.havoc(ctx, n, old, tag)
                if r is not None:
                    env.vars[n] = r
                    continue
            env.vars[n] = havoc_like(ctx, old, f"{n}@{tag}")


def _only_integer_updates(body, name):
    """Every store to `name` in the loop body is `name += <int literal>` / `name -= <int literal>` / `name = name +- <int
    literal>` / `name = <int literal>`."""
    def int_lit(e):
        return isinstance(e, ast.Constant) and isinstance(e.value, int) and not isinstance(e.value, bool)

    for st in body:
        for n in ast.walk(st):
            if isinstance(n, ast.AugAssign) and isinstance(n.target, ast.Name) and n.target.id == name:
                if not (isinstance(n.op, (ast.Add, ast.Sub)) and int_lit(n.value)):
                    return False
            elif isinstance(n, ast.Assign) and any(isinstance(t, ast.Name) and t.id == name for t in n.targets):
                v = n.value
                ok = int_lit(v) or (isinstance(v, ast.BinOp) and isinstance(v.op, (ast.Add, ast.Sub)) and isinstance(v.left, ast.Name)
                                    and v.left.id == name and int_lit(v.right))
                if not ok:
                    return False
            elif isinstance(n, (ast.For, ast.comprehension)) and any(isinstance(t, ast.Name) and t.id == name for t in ast.walk(n.target)):
                return False
            elif isinstance(n, ast.Assign) and any(isinstance(t, (ast.Tuple, ast.List)) and any(isinstance(e, ast.Name) and e.id == name for e in ast.walk(t)) for t in n.targets):
                return False
    return True


class _ConcreteItems:
    def __init__(self, items):
        self.items = items

    def count(self):
        return len(self.items)

    def item(self, i):
        if isinstance(i, int):
            return self.items[i]
        return Arr(len(self.items), elems=list(self.items), dtype="object", is_nd=False).get(i)


def havoc_like(ctx, old, base):
    if isinstance(old, bool) or (isinstance(old, Sym) and old.kind == "bool"):
        return ctx.fresh(base, "bool")
    if isinstance(old, int) or (isinstance(old, Sym) and old.kind == "int"):
        return ctx.fresh(base, "int")
    from fractions import Fraction

    if isinstance(old, Fraction) or (isinstance(old, Sym) and old.kind == "float"):
        return ctx.fresh(base, "float")
    if isinstance(old, Arr):
        ctx.counter += 1
        sort = z3.RealSort() if old.dtype == "float" else (z3.IntSort() if old.dtype == "int" else z3.BoolSort())
        f = z3.Function(f"{base}!{ctx.counter}", z3.IntSort(), sort)
        kind = {"float": "float", "int": "int", "bool": "bool"}[old.dtype]
        return Arr(old.length, fn=lambda i: Sym(f(i if not isinstance(i, int) else z3.IntVal(i)), kind), dtype=old.dtype, is_nd=old.is_nd)
    raise EngineError(f"cannot havoc {old!r}: give the loop contract a custom havoc for {base}")


class View:
    """Read-only attribute view of an Env for invariants."""

    def __init__(self, env, rename=None):
        object.__setattr__(self, "_env", env)
        object.__setattr__(self, "_rename", rename or {})

    def __getattr__(self, name):
        name = self._rename.get(name, name)
        e = self._env
        while e is not None:
            if name in e.vars:
                return e.vars[name]
            e = e.parent
        raise EngineError(f"invariant refers to unknown local '{name}'")

    def get(self, name, default=None):
        """A role the code may not have (a counter that a rewrite dropped): the invariant then says nothing about it."""
        try:
            return getattr(self, name)
        except EngineError:
            return default


def as_formula(f):
    if isinstance(f, Sym):
        return f.t
    if isinstance(f, bool):
        return z3.BoolVal(f)
    if isinstance(f, (list, tuple)):
        return z3.And([as_formula(x) for x in f]) if f else z3.BoolVal(True)
    return f
